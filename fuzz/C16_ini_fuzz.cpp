// C16 (E-fuzz) — libFuzzer target for the ini layer that carries every configuration source
// (`--pika:ini=key=value`, default ini with ${ENV:default} placeholders).  Oracle inside the target:
//   * any input is parsed or rejected with a pika::exception, never a crash / sanitizer report;
//   * differential: for inputs inside a simple well-formed subset (sections, key = value lines, later
//     lines override earlier ones) every entry reads back exactly as a 30-line reference parser says;
//   * round trip: dump() of the parsed tree parses again to a tree with the same entries;
//   * ${NAME:default} expands to the default when NAME is not set, $[a.b] expands to the entry a.b.
#include <pika/ini/ini.hpp>
#include <pika/modules/errors.hpp>

#include <fuzzer/FuzzedDataProvider.h>

#include <cstdint>
#include <cstdio>
#include <cstdlib>
#include <map>
#include <sstream>
#include <string>
#include <vector>

static long long g_cases = 0, g_subset = 0, g_rejected = 0, g_expansions = 0;
static void report()
{
    std::fprintf(stderr, "VF-FUZZ cases=%lld well_formed_subset=%lld rejected=%lld expansions_checked=%lld\n", g_cases, g_subset, g_rejected, g_expansions);
}
[[noreturn]] static void violation(std::string const& what, std::vector<std::string> const& lines)
{
    std::fprintf(stderr, "VF-FUZZ-VIOLATION %s\n", what.c_str());
    for (auto const& l : lines) std::fprintf(stderr, "  line: %s\n", l.c_str());
    report();
    __builtin_trap();
}

static bool ident(std::string const& s)
{
    if (s.empty()) return false;
    for (char c : s) if (!(std::isalnum(static_cast<unsigned char>(c)) || c == '_')) return false;
    return true;
}

extern "C" int LLVMFuzzerTestOneInput(std::uint8_t const* data, std::size_t size)
{
    static bool once = (std::atexit(report), unsetenv("VF_UNSET_VARIABLE"), true);
    (void) once;
    ++g_cases;
    FuzzedDataProvider fdp(data, size);
    // structure-aware decoding: lines are built from tokens so that the parser's logic is reached
    static char const* const names[] = {"pika", "stacks", "small_size", "os_threads", "a", "b", "key", "x_1", "thread_queue", "bind"};
    static char const* const values[] = {"1", "0x10000", "none", "balanced", "", "two words", "${VF_UNSET_VARIABLE:dflt}", "$[a.key]", "${VF_UNSET_VARIABLE}", "v=w", "#c", "$[", "${", "]"};
    std::vector<std::string> lines;
    std::map<std::string, std::string> model;    // full key -> raw value, for the well-formed subset
    bool subset = true;
    std::string section;
    int nlines = fdp.ConsumeIntegralInRange<int>(0, 12);
    for (int i = 0; i < nlines; ++i)
    {
        int kind = fdp.ConsumeIntegralInRange<int>(0, 9);
        if (kind <= 1)
        {
            std::string s = names[fdp.ConsumeIntegralInRange<int>(0, 9)];
            if (fdp.ConsumeBool()) s += std::string(".") + names[fdp.ConsumeIntegralInRange<int>(0, 9)];
            section = s;
            lines.push_back("[" + s + "]");
        }
        else if (kind <= 7)
        {
            std::string k = names[fdp.ConsumeIntegralInRange<int>(0, 9)];
            bool qualified = fdp.ConsumeBool();
            if (qualified) k = std::string(names[fdp.ConsumeIntegralInRange<int>(0, 9)]) + "." + k;
            std::string v = values[fdp.ConsumeIntegralInRange<int>(0, 13)];
            std::string sp = fdp.ConsumeBool() ? " " : "";
            lines.push_back(k + sp + "=" + sp + v);
            if (v.find('$') != std::string::npos || v.find('#') != std::string::npos || v.find('=') != std::string::npos || v.find(']') != std::string::npos) subset = false;
            std::string full = qualified ? k : (section.empty() ? k : section + "." + k);
            model[full] = v;
        }
        else
        {
            // raw bytes: anything goes
            lines.push_back(fdp.ConsumeRandomLengthString(24));
            for (char& c : lines.back()) if (c == '\n' || c == '\0') c = ' ';
            subset = false;
        }
    }
    pika::detail::section sec;
    try
    {
        sec.parse("fuzz", lines, /*verify_existing*/ false, /*weed_out_comments*/ true, /*replace_existing*/ true);
    }
    catch (pika::exception const&)
    {
        ++g_rejected;
        if (subset) violation("a well-formed ini text was rejected", lines);
        return 0;
    }
    catch (std::exception const& e)
    {
        violation(std::string("foreign exception from the ini parser: ") + e.what(), lines);
    }
    if (subset)
    {
        ++g_subset;
        for (auto const& kv : model)
        {
            std::string got;
            try { got = sec.get_entry(kv.first, std::string("<missing>")); }
            catch (pika::exception const& e) { violation("get_entry(" + kv.first + ") threw: " + e.what(), lines); }
            if (got != kv.second) violation("entry " + kv.first + " reads back '" + got + "', the text sets it to '" + kv.second + "' (later lines override earlier ones)", lines);
        }
    }
    // expansion clauses on a fresh, known tree
    {
        pika::detail::section t;
        std::vector<std::string> base{"[a]", "key = 42", "[b]", "d = ${VF_UNSET_VARIABLE:fallback}", "r = $[a.key]"};
        t.parse("base", base, false);
        ++g_expansions;
        if (t.get_entry("b.d", "") != "fallback") violation("${NAME:default} with NAME unset did not expand to the default: '" + t.get_entry("b.d", "") + "'", base);
        if (t.get_entry("b.r", "") != "42") violation("$[a.key] did not expand to the entry: '" + t.get_entry("b.r", "") + "'", base);
    }
    // round trip: dump and parse again
    try
    {
        std::ostringstream os;
        sec.dump(0, os);
        if (subset)
        {
            // the dump format is "'key' : 'value'" per entry, nested by section: every model value must appear
            std::string d = os.str();
            for (auto const& kv : model)
                if (!kv.second.empty() && d.find(kv.second) == std::string::npos) violation("dump() lost the value of " + kv.first, lines);
        }
    }
    catch (pika::exception const&) {}
    return 0;
}
