#!/usr/bin/env python3
"""Run the pinned baseline (guard OFF: /repo/_build never defines PIKA_VERIF) and compare with
/root/.vp/BASELINE.json stable_pass. Exit 0 iff every stable_pass test passed."""
import json, subprocess, sys, tempfile, xml.etree.ElementTree as ET, os
base = json.load(open('/root/.vp/BASELINE.json'))
want = set(t.split('::')[0] for t in base['stable_pass'])
out = tempfile.mktemp(suffix='.xml')
subprocess.run(['ctest', '--test-dir', '/repo/_build', '-j16', '--timeout', '900', '--output-junit', out],
               stdout=subprocess.DEVNULL, stderr=subprocess.DEVNULL)
passed = set()
for tc in ET.parse(out).getroot().iter('testcase'):
    if tc.get('status') == 'run' and tc.find('failure') is None:
        passed.add(tc.get('name'))
os.unlink(out)
missing = sorted(want - passed)
print(f"stable_pass={len(want)} passed_now={len(want & passed)} missing={len(missing)}")
for m in missing[:20]: print("  MISSING", m)
sys.exit(1 if missing else 0)
