#!/usr/bin/env python3
"""One-shot helper used while authoring the PIKA_VERIF hook commits in /repo (kept for the record).
Each entry: (file, anchor text occurring exactly once, text to insert, 'before'|'after')."""
import sys
R='/repo/'
E=[
# ---- set_thread_state
('libs/pika/threading_base/src/set_thread_state.cpp',
 "        // make sure that the thread has not been suspended and set active again\n        // in the meantime\n",
 "        PIKA_VERIF_POINT(13, get_thread_id_data(thrd));\n", 'before'),
('libs/pika/threading_base/src/set_thread_state.cpp',
 "            // So all what we do here is to set the new state.\n",
 "            PIKA_VERIF_POINT(11, get_thread_id_data(thrd), static_cast<std::uint64_t>(previous_state_val), static_cast<std::uint64_t>(new_state));\n", 'before'),
('libs/pika/threading_base/src/set_thread_state.cpp',
 "            auto* scheduler = thrd_data->get_scheduler_base();\n",
 "            PIKA_VERIF_POINT(12, thrd_data);\n", 'after'),
('libs/pika/threading_base/src/set_thread_state.cpp',
 "                    create_work(get_thread_id_data(thrd)->get_scheduler_base(), data, ec);\n",
 "                    PIKA_VERIF_POINT(14, get_thread_id_data(thrd));\n", 'before'),
# ---- execution agent
('libs/pika/threading_base/src/execution_agent.cpp',
 "            statex = self_.yield(thread_result_type(state, invalid_thread_id));\n",
 "            PIKA_VERIF_POINT(10, thrd_data, static_cast<std::uint64_t>(state));\n", 'before'),
# ---- detail::condition_variable
('libs/pika/synchronization/src/detail/condition_variable.cpp',
 "            this_ctx.suspend();\n",
 "            PIKA_VERIF_POINT(20, this);\n", 'before'),
('libs/pika/synchronization/src/detail/condition_variable.cpp',
 "            this_ctx.sleep_until(abs_time.value());\n",
 "            PIKA_VERIF_POINT(23, this);\n", 'before'),
('libs/pika/synchronization/src/detail/condition_variable.cpp',
 "            bool not_empty = !queue_.empty();\n            ctx.resume();\n",
 "            PIKA_VERIF_POINT(21, this);\n", 'before'),
('libs/pika/synchronization/src/detail/condition_variable.cpp',
 "            queue.pop_front();\n            ctx.resume();\n\n        }\n\n        if (&ec != &throws) ec = make_success_code();\n    }\n\n    void condition_variable::abort_all(std::unique_lock<mutex_type> lock)",
 None, 'skip'),
# ---- mutex
('libs/pika/synchronization/src/mutex.cpp',
 "        while (owner_id_ != threads::detail::invalid_thread_id)\n        {\n            cond_.wait(l, ec);\n",
 "PIKA_VERIF_POINT(30, this);", 'special_mutex_lock'),
('libs/pika/synchronization/src/mutex.cpp',
 "        owner_id_ = threads::detail::invalid_thread_id;\n\n        {\n",
 "        PIKA_VERIF_POINT(31, this);\n", 'after'),
# ---- counting semaphore
('libs/pika/synchronization/src/detail/counting_semaphore.cpp',
 "        value_ += count;\n        for (std::int64_t i = 0;",
 "        PIKA_VERIF_POINT(40, this);\n", 'special_sem_signal'),
('libs/pika/synchronization/src/detail/counting_semaphore.cpp',
 "        while (value_ < count) { cond_.wait(l, \"counting_semaphore::wait\"); }\n",
 "        PIKA_VERIF_POINT(41, this);\n", 'before'),
# ---- thread join / exit callbacks
('libs/pika/threading/src/thread.cpp',
 "            // wait for thread to be terminated\n            detail::unlock_guard ul(l);\n",
 "            PIKA_VERIF_POINT(60, this);\n", 'after'),
('libs/pika/threading_base/src/thread_data.cpp',
 "        std::unique_lock<pika::detail::spinlock> l(spinlock_pool::spinlock_for(this));\n\n        while (!exit_funcs_.empty())\n",
 "        PIKA_VERIF_POINT(61, this);\n", 'before'),
# ---- stop_token
('libs/pika/synchronization/src/stop_token.cpp',
 "            cb->is_removed_ = &is_removed;\n\n            cb->execute();\n",
 None, 'special_stop_exec'),
('libs/pika/synchronization/src/stop_token.cpp',
 "            if (cb->remove_this_callback()) { return; }\n        }\n",
 "        PIKA_VERIF_POINT(72, cb);\n", 'after'),
# ---- barrier
('libs/pika/synchronization/src/barrier.cpp',
 "                detail::barrier_phase_t expect = old_phase;\n",
 "                PIKA_VERIF_POINT(51, this, current, static_cast<std::uint64_t>(round));\n", 'after'),
# ---- index queue
]
def apply(f, anchor, ins, mode):
    p=R+f; s=open(p).read()
    if mode=='skip': return
    assert s.count(anchor)==1, (f, anchor[:50], s.count(anchor))
    if mode=='before': s=s.replace(anchor, ins+anchor)
    elif mode=='after': s=s.replace(anchor, anchor+ins)
    elif mode=='special_mutex_lock':
        s=s.replace(anchor, "        while (owner_id_ != threads::detail::invalid_thread_id)\n        {\n            PIKA_VERIF_POINT(30, this);\n            cond_.wait(l, ec);\n")
    elif mode=='special_sem_signal':
        s=s.replace(anchor, "        value_ += count;\n        PIKA_VERIF_POINT(40, this);\n        for (std::int64_t i = 0;")
    elif mode=='special_stop_exec':
        s=s.replace(anchor, "            cb->is_removed_ = &is_removed;\n\n            PIKA_VERIF_POINT(70, cb);\n            cb->execute();\n            PIKA_VERIF_POINT(71, cb);\n")
    open(p,'w').write(s)
for e in E: apply(*e)
print("ok")
