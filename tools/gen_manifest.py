#!/usr/bin/env python3
"""Regenerate MANIFEST.json from bin/props.py (single source of truth for targets/tiers)."""
import json, os, sys
V = os.path.dirname(os.path.dirname(os.path.abspath(__file__)))
sys.path.insert(0, os.path.join(V, "bin"))
from props import PROPS, LEVEL_TEXT, NOT_APPLICABLE  # noqa
ALL = [f"C{i:02d}" for i in range(1, 21)]
flavours = sorted({t.get("flavour", "rel") for p in PROPS.values() for t in p["targets"] if t.get("kind") != "fuzz"})
checks = []
for pid in ALL:
    if pid not in PROPS:
        continue
    P = PROPS[pid]
    engines = sorted({t.get("engine", "") for t in P["targets"]})
    lt = LEVEL_TEXT[pid]
    checks.append({
        "property_id": pid,
        "quick_cmd": f"bin/check {pid} --tier quick",
        "thorough_cmd": f"bin/check {pid} --tier thorough",
        "evidence_file": f"/verif/evidence/{pid}.json",
        "replay_cmd_template": f"bin/check {pid} --replay {{path}}",
        "engine": "+".join(engines),
        "level_claimed": {"category": "exploration", "text": lt["text"], "design_ref": lt.get("ref", "DESIGN.md §4 " + pid)},
        "level_note": lt["note"],
        "technique": lt["technique"],
    })
hooks_commits = [l.strip() for l in open(os.path.join(V, "hooks_commits.txt")) if l.strip()] if os.path.exists(os.path.join(V, "hooks_commits.txt")) else []
m = {
    "version": 1,
    "setup_cmd": "python3 bin/setup.py",
    "hooks": {
        "guard": "PIKA_VERIF",
        "enable": "bin/build.py configures /verif/build/<flavour> from /repo's working tree with -DCMAKE_CXX_FLAGS=-DPIKA_VERIF (and compiles every harness target with -DPIKA_VERIF); /repo/_build never defines it",
        "baseline_off_cmd": "python3 /verif/tools/baseline_check.py",
        "source_commits": hooks_commits,
        "add_only": True,
    },
    "engines": [
        {"name": "E-rt", "path": "harness/rt.hpp", "kind_free_text": "rapidcheck choice-tape generator; every case runs the real pika runtime in a fresh fork()ed process with hook-driven monitors, perturbation plans and a state-based quiescence detector", "serves_properties": sorted(p for p, v in PROPS.items() if any(t.get("engine") == "E-rt" for t in v["targets"]))},
        {"name": "E-seq", "path": "harness/core.hpp", "kind_free_text": "in-process rapidcheck (choice tape -> operation history) against a reference model", "serves_properties": sorted(p for p, v in PROPS.items() if any(t.get("engine") == "E-seq" for t in v["targets"]))},
        {"name": "E-vt", "path": "harness/vt.hpp", "kind_free_text": "deterministic virtual threads: OS threads + baton, custom pika agent, schedule = generated tape; exact deadlock detection", "serves_properties": sorted(p for p, v in PROPS.items() if any(t.get("engine") == "E-vt" for t in v["targets"]))},
        {"name": "E-proc", "path": "harness/proc.hpp", "kind_free_text": "one process per generated configuration (env, argv, synthetic hwloc topology), live runtime dumps what it uses, parent compares with a reference model", "serves_properties": sorted(p for p, v in PROPS.items() if any(t.get("engine") == "E-proc" for t in v["targets"]))},
        {"name": "E-stress", "path": "props/C17_queues_stress.cpp", "kind_free_text": "generated thread mixes on free-running std::threads (no baton, no runtime, pika's real default execution agent; optional CPU oversubscription); per-round protocols that aim the racing calls at each other with generated, swept skews; shadow-state / ledger oracles and a no-progress monitor: samples real x86 interleavings and preemption (C17 containers, C03 adaptor hand-offs, C07-C09 primitives from plain OS threads)", "serves_properties": sorted(p for p, v in PROPS.items() if any(t.get("engine") == "E-stress" for t in v["targets"]))},
        {"name": "E-fuzz", "path": "fuzz/", "kind_free_text": "libFuzzer + ASan/UBSan byte-level targets with semantic oracles inside the target", "serves_properties": sorted(p for p, v in PROPS.items() if any(t.get("engine") == "E-fuzz" for t in v["targets"]))},
    ],
    "checks": checks,
    "not_applicable": [{"property_id": p, "reason": NOT_APPLICABLE.get(p, "check not built yet in this round (planned in DESIGN.md §4); no claim is made")} for p in ALL if p not in PROPS],
    "notes": "All checks are property-based tests / fuzzers: rapidcheck-generated choice tapes decoded into structured cases, explicit oracles, shrinking, replay files under replays/. See DESIGN.md.",
}
m["engines"] = [e for e in m["engines"] if e["serves_properties"]]
json.dump(m, open(os.path.join(V, "MANIFEST.json"), "w"), indent=1)
print("MANIFEST.json:", len(checks), "checks,", len(m["not_applicable"]), "not applicable")
