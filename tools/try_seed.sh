#!/bin/bash
# usage: tools/try_seed.sh <patch.diff> <ID> [more IDs...]   -- applies the patch to /repo, runs the quick checks, reverts
set -u
patch=$1; shift
cd /repo && git apply -3 "$patch" && git reset -q || { echo "patch does not apply"; exit 3; }
cd /verif
for id in "$@"; do
  echo "=== $id with $(basename $(dirname $patch))"
  VERIF_SEED=${VERIF_SEED:-0} bin/check $id --tier ${TIER:-quick} 2>&1 | grep -E "VIOLATION|KNOWN|HARNESS|^\[C|oracle=" | cut -c1-400
done
cd /repo && git reset -q --hard HEAD && git status --short | grep -v _build
