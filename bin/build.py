#!/usr/bin/env python3
"""Configure/build pika flavours from /repo's *current working tree* into /verif/build/<flavour>
and compile harness targets against them.  Everything is flock-protected so that several checks
may run concurrently."""
import fcntl, hashlib, json, os, shlex, subprocess, sys, time

VERIF = os.path.dirname(os.path.dirname(os.path.abspath(__file__)))
REPO = os.environ.get("VERIF_REPO", "/repo")
BUILD = os.path.join(VERIF, "build")

COMMON = [
    "-G", "Ninja", "-S", REPO,
    "-DPIKA_WITH_MALLOC=system", "-DPIKA_WITH_TESTS=OFF", "-DPIKA_WITH_EXAMPLES=OFF",
    "-DPIKA_WITH_UNITY_BUILD=ON", "-Dfmt_DIR=/usr/lib/x86_64-linux-gnu/cmake/fmt",
    "-DCMAKE_CXX_COMPILER=g++",
]
FLAVOURS = {
    "rel": ["-DCMAKE_BUILD_TYPE=RelWithDebInfo", "-DCMAKE_CXX_FLAGS=-Wno-error -DPIKA_VERIF -g1"],
    "dbg": ["-DCMAKE_BUILD_TYPE=Debug",
            "-DCMAKE_CXX_FLAGS=-Wno-error -DPIKA_VERIF -g1 -O1 -fsanitize=address -fno-omit-frame-pointer",
            "-DCMAKE_SHARED_LINKER_FLAGS=-fsanitize=address", "-DCMAKE_EXE_LINKER_FLAGS=-fsanitize=address",
            "-DPIKA_WITH_SANITIZERS=ON"],
    "mpi": ["-DCMAKE_BUILD_TYPE=RelWithDebInfo", "-DCMAKE_CXX_FLAGS=-Wno-error -DPIKA_VERIF -g1",
            "-DPIKA_WITH_MPI=ON"],
}
FLAV_CXX = {
    "rel": ["-O2", "-g1"],
    "dbg": ["-O1", "-g1", "-fsanitize=address", "-fno-omit-frame-pointer", "-DPIKA_DEBUG"],
    "mpi": ["-O2", "-g1"],
}


def log(*a):
    print("[build]", *a, file=sys.stderr, flush=True)


class Lock:
    def __init__(self, name):
        os.makedirs(BUILD, exist_ok=True)
        self.path = os.path.join(BUILD, name + ".lock")

    def __enter__(self):
        self.f = open(self.path, "w")
        fcntl.flock(self.f, fcntl.LOCK_EX)
        return self

    def __exit__(self, *a):
        fcntl.flock(self.f, fcntl.LOCK_UN)
        self.f.close()


def run(cmd, **kw):
    t = time.time()
    r = subprocess.run(cmd, stdout=subprocess.PIPE, stderr=subprocess.STDOUT, text=True, **kw)
    if r.returncode != 0:
        sys.stderr.write(r.stdout[-8000:])
        raise SystemExit("build step failed: " + " ".join(map(shlex.quote, cmd))[:400])
    return time.time() - t


def ensure_pika(flavour):
    """cmake once, ninja every time (1 s when nothing changed)."""
    bdir = os.path.join(BUILD, flavour)
    with Lock(flavour):
        if not os.path.exists(os.path.join(bdir, "build.ninja")):
            os.makedirs(bdir, exist_ok=True)
            dt = run(["cmake", "-B", bdir] + COMMON + FLAVOURS[flavour])
            log(f"configured {flavour} in {dt:.1f}s")
        dt = run(["ninja", "-C", bdir, "pika"])
        if dt > 3:
            log(f"built libpika [{flavour}] in {dt:.1f}s")
    return bdir


def include_flags(bdir):
    inc = []
    libs = os.path.join(REPO, "libs", "pika")
    for m in sorted(os.listdir(libs)):
        d = os.path.join(libs, m, "include")
        if os.path.isdir(d):
            inc.append("-I" + d)
        d = os.path.join(bdir, "libs", "pika", m, "include")
        if os.path.isdir(d):
            inc.append("-I" + d)
    inc.append("-I" + bdir)
    inc.append("-I" + os.path.join(VERIF, "harness"))
    return inc


DEFS = ["-DPIKA_VERIF", "-DFMT_SHARED", "-DSPDLOG_COMPILED_LIB", "-DSPDLOG_FMT_EXTERNAL",
        "-DSPDLOG_SHARED_LIB", "-D_GNU_SOURCE", "-DPIKA_APPLICATION_NAME=verif"]


def ensure_target(flavour, src, extra_cxx=(), extra_ld=(), with_rc=True, name=None):
    """Compile props/<src> into build/<flavour>/bin/<name>; recompiled when any dependency changed
    (gcc depfile) or flags changed."""
    bdir = ensure_pika(flavour)
    name = name or os.path.splitext(os.path.basename(src))[0]
    out = os.path.join(bdir, "vbin", name)
    os.makedirs(os.path.dirname(out), exist_ok=True)
    srcp = src if os.path.isabs(src) else os.path.join(VERIF, src)
    cmd = (["g++", "-std=c++20", "-pthread", "-Wno-deprecated-declarations"] + FLAV_CXX[flavour] + DEFS + list(extra_cxx)
           + include_flags(bdir) + ["-MMD", "-MF", out + ".d", srcp, "-o", out,
              "-L" + os.path.join(bdir, "lib"), "-Wl,-rpath," + os.path.join(bdir, "lib"),
              "-lpika", "-lfmt", "-lspdlog", "-lhwloc", "-latomic"]
           + (["-lrapidcheck"] if with_rc else []) + list(extra_ld))
    if flavour == "mpi":
        cmd += ["-I/usr/lib/x86_64-linux-gnu/openmpi/include", "-DOMPI_SKIP_MPICXX", "-lmpi"]
    sig = hashlib.sha1(" ".join(cmd).encode()).hexdigest()
    with Lock("t-" + flavour + "-" + name):
        need = True
        if os.path.exists(out) and os.path.exists(out + ".d") and os.path.exists(out + ".sig"):
            if open(out + ".sig").read() == sig:
                mt = os.path.getmtime(out)
                deps = open(out + ".d").read().replace("\\\n", " ").split(":", 1)[1].split()
                deps.append(os.path.join(bdir, "lib", "libpika.so"))
                need = any((not os.path.exists(d)) or os.path.getmtime(d) > mt for d in deps)
        if need:
            dt = run(cmd)
            open(out + ".sig", "w").write(sig)
            log(f"compiled {name} [{flavour}] in {dt:.1f}s")
    return out


def ensure_fuzz_target(src, extra_cxx=(), extra_src=()):
    """libFuzzer + ASan + UBSan target (clang); extra_src = pika sources compiled *into* the target so that
    they are instrumented for coverage (the rest comes from the uninstrumented libpika.so of the rel flavour)."""
    bdir = ensure_pika("rel")
    name = os.path.splitext(os.path.basename(src))[0]
    out = os.path.join(bdir, "vbin", name)
    os.makedirs(os.path.dirname(out), exist_ok=True)
    srcp = src if os.path.isabs(src) else os.path.join(VERIF, src)
    extra = [x if os.path.isabs(x) else os.path.join(REPO, x) for x in extra_src]
    cmd = (["clang++", "-std=c++20", "-g", "-O1", "-fsanitize=fuzzer,address,undefined", "-fno-sanitize-recover=undefined",
            "-Wno-deprecated-declarations", "-pthread"] + DEFS + list(extra_cxx) + include_flags(bdir)
           + ["-MMD", "-MF", out + ".d", srcp] + extra + ["-o", out, "-L" + os.path.join(bdir, "lib"),
              "-Wl,-rpath," + os.path.join(bdir, "lib"), "-lpika", "-lfmt", "-lspdlog", "-lhwloc", "-latomic"])
    sig = hashlib.sha1(" ".join(cmd).encode()).hexdigest()
    with Lock("t-fuzz-" + name):
        need = True
        if os.path.exists(out) and os.path.exists(out + ".d") and os.path.exists(out + ".sig"):
            if open(out + ".sig").read() == sig:
                mt = os.path.getmtime(out)
                deps = open(out + ".d").read().replace("\\\n", " ").split(":", 1)[1].split()
                deps = [d for d in deps if d != "\\"]
                deps.append(os.path.join(bdir, "lib", "libpika.so"))
                deps += extra
                need = any((not os.path.exists(d)) or os.path.getmtime(d) > mt for d in deps)
        if need:
            dt = run(cmd)
            open(out + ".sig", "w").write(sig)
            log(f"compiled fuzz target {name} in {dt:.1f}s")
    return out


if __name__ == "__main__":
    if len(sys.argv) >= 3 and sys.argv[1] == "ensure":
        for f in sys.argv[2:]:
            print(ensure_pika(f))
    elif len(sys.argv) >= 4 and sys.argv[1] == "target":
        print(ensure_target(sys.argv[2], sys.argv[3]))
    else:
        print("usage: build.py ensure <flavour>... | target <flavour> <src>")
