#!/usr/bin/env python3
"""MANIFEST.setup_cmd: build every pika flavour and every harness target once (offline)."""
import os, sys, concurrent.futures as cf
V = os.path.dirname(os.path.dirname(os.path.abspath(__file__)))
sys.path.insert(0, os.path.join(V, "bin"))
import build as B
from props import PROPS
flavours = sorted({t.get("flavour", "rel") for p in PROPS.values() for t in p["targets"] if t.get("kind") != "fuzz"} | {"rel"})
for f in flavours:
    B.ensure_pika(f)
jobs = []
for p in PROPS.values():
    for t in p["targets"]:
        jobs.append(t)
def go(t):
    if t.get("kind") == "fuzz":
        return B.ensure_fuzz_target(t["src"], t.get("extra_cxx", ()), t.get("extra_src", ()))
    return B.ensure_target(t.get("flavour", "rel"), t["src"], extra_cxx=t.get("extra_cxx", ()), extra_ld=t.get("extra_ld", ()))
with cf.ThreadPoolExecutor(8) as ex:
    for r in ex.map(go, jobs):
        print("built", r)
