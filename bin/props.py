"""Per-property check configuration (targets, tiers, floors, evidence rule text)."""

def rt(src, q_cases, q_budget, t_cases, t_budget, shards=12, flavour="rel", size=100, **kw):
    d = {"src": src, "flavour": flavour, "engine": "E-rt",
         "quick": {"shards": shards, "cases": q_cases, "budget": q_budget, "size": size},
         "thorough": {"shards": shards, "cases": t_cases, "budget": t_budget, "size": size}}
    d.update(kw)
    return d

def seq(src, q_cases, q_budget, t_cases, t_budget, shards=4, flavour="rel", size=100, engine="E-seq", **kw):
    d = {"src": src, "flavour": flavour, "engine": engine,
         "quick": {"shards": shards, "cases": q_cases, "budget": q_budget, "size": size},
         "thorough": {"shards": shards * 2, "cases": t_cases, "budget": t_budget, "size": size}}
    d.update(kw)
    return d

PROPS = {
    "C01": {
        "targets": [rt("props/C01_exactly_once.cpp", 400, 70, 6000, 900)],
        "rule": "case = (scheduler config incl. policy/workers/stealing/queue params/CPU restriction/perturbation plan) x "
                "(generated task forest: creation methods, priorities, stack sizes, hints, yields, event waits, joins, "
                "external submitters, waves), decoded from a rapidcheck-generated choice tape and run in a fresh process; "
                "non-trivial iff the hook monitor observed >=1 task resumed on a different worker (migration/steal) or >=1 "
                "suspension or >=1 thread-object rebind; distinct by hash of the decoded case",
        "floor": {"quick": 50, "thorough": 500},
        "assumptions": ["real OS scheduling: interleavings are sampled (biased by perturbation plans and CPU starvation), not enumerated",
                        "watchdog expiry is reported as inconclusive, never as a violation"],
    },
}

NOT_APPLICABLE = {}

LEVEL_TEXT = {
    "C01": {
        "text": "Generated-input search: thousands of generated (scheduler configuration x task program x perturbation plan) cases per run are executed on the real runtime, each in a fresh process, and judged by a completion ledger (entered==finished==1 per task after pika::wait), a hook-fed single-runner monitor around the coroutine call, an in-body two-runner detector and a state-based deadlock detector. Exploration is the right level: the property quantifies over schedules of the real scheduler, which can be sampled with bias but not enumerated.",
        "note": "Trusts the harness ledger/monitor code and the OS; interleavings are sampled (perturbation at the named hand-off sites, CPU starvation, 8 policies, 1..16 workers), never exhausted; a watchdog expiry is inconclusive, not a violation.",
        "technique": "property-based testing (rapidcheck choice tape, fork-per-case real runtime, ledger + hook monitor oracles)",
    },
}

PROPS["C02"] = {
    "targets": [rt("props/C02_lost_wakeup.cpp", 1500, 70, 20000, 900),
                rt("props/C02_group_wakeup.cpp", 150, 45, 4000, 600, shards=6)],
    "rule": "case = scheduler config (1..8 workers, 8 policies, CPU restriction) with a MANDATORY perturbation plan at the hand-off sites "
            "(cv wait between unlock and suspend, do_yield, after the coroutine returned / store_state, set_thread_state before CAS / before "
            "schedule, set_active_state helper, notify, join, exit callbacks) x 1..6 ping-pong channels (facility in semaphore / cv+mutex / "
            "cv_any+spinlock / latch / event / thread::join / sync_wait; waker on a task or a plain OS thread; 1..60 rounds; hints; delays); "
            "non-trivial iff >=1 wake-up hit the active-target path (set_thread_state found the target still active and scheduled the "
            "set_active_state helper task), observed through hooks; distinct by hash of the decoded case. Second target (groups): 1..3 channels "
            "with 2..6 waiter tasks blocked on ONE facility (semaphore, cv+mutex, cv_any+spinlock used as permit counters, latch, event) x "
            "wake-ups issued one by one / all at once / 1+rest back to back by a task or OS thread, optionally only after all waiters are inside "
            "their wait, x 1..30 rounds; non-trivial iff some round started with all waiters blocked",
    "floor": {"quick": 30, "thorough": 300},
    "assumptions": ["interleavings sampled with deliberate window widening, not enumerated",
                    "deadlock verdicts are state-based (quiescence detector), watchdog expiry is inconclusive"],
}
LEVEL_TEXT["C02"] = {
    "text": "Generated ping-pong programs over every blocking facility built on the suspend/resume path run on the real runtime with mandatory, generated perturbation plans that widen exactly the windows the property names; the oracle is the property's own second sentence: a state-based quiescence detector (all pools: active=pending=staged=0, suspended>0, activation counter unchanged over 6 samples, no external actor) while the harness knows the wake-up was issued, plus round-completion counts. Exploration, because schedules of the real scheduler can only be sampled.",
    "note": "Window widening is by sleeping/spinning at hook points; interleavings between hook points are reached only through OS preemption (CPU restriction helps). The set_thread_state helper path is confirmed hit in the non-trivial cases by hook counters. A second target blocks 2..6 waiters on one facility and issues the matching wake-ups back to back (groups).",
    "technique": "property-based testing (rapidcheck choice tape, fork-per-case runtime, hook perturbation plans, state-based deadlock oracle)",
}

PROPS["C05"] = {
    "targets": [rt("props/C05_lifecycle.cpp", 300, 70, 5000, 900)],
    "rule": "case = history of 1..3 runtime incarnations, each with its own scheduler config, entry variant (start(nullptr) / start(f) / "
            "init(f) with the history driven from inside pika_main), finalize caller (main / pika_main / task / external OS thread) and a "
            "generated task program whose waves are submitted by steps in {submit, wait, suspend+submit-while-suspended+resume, external "
            "burst concurrent with wait}; non-trivial iff >=2 incarnations, or a wait() was issued while submitted work was unfinished, or "
            "work was submitted during a suspension; distinct by hash of the decoded history",
    "floor": {"quick": 30, "thorough": 300},
    "assumptions": ["preconditions respected: stop/suspend/resume only from non-pika threads, finalize exactly once per incarnation",
                    "tasks submitted concurrently with wait() are only required by the next wait()/stop()"],
}
LEVEL_TEXT["C05"] = {
    "text": "Generated start/submit/wait/suspend/resume/finalize/stop histories over several runtime incarnations are run on the real runtime in a fresh process; a completion ledger is read immediately after every wait() and stop() (every task submitted before the call and all descendants must be finished), a suspended-flag is tested at every body segment entry, stop()'s result is compared with the entry function's, and the state-based quiescence detector turns a stuck wait()/suspend() into a violation. Exploration: the idle-detection race is schedule-dependent and can only be sampled.",
    "note": "Schedules sampled; perturbation at task activation/termination sites; watchdog expiry is inconclusive.",
    "technique": "property-based testing (generated life-cycle histories, ledger oracle, fork-per-case real runtime)",
}

PROPS["C06"] = {
    "targets": [rt("props/C06_mutex.cpp", 400, 70, 6000, 900)],
    "rule": "case = scheduler config + perturbation plan at mutex::lock/unlock, cv wait/notify and suspend/resume sites x 1..3 locks "
            "(mutex, timed_mutex, recursive_mutex<pika::mutex>, recursive_mutex<spinlock>, spinlock) x 2..24 tasks each running 1..7 blocks "
            "(lock / try_lock / try_lock_for(0..30s) / recursive lock^k / misuse probes relock-owned and unlock-foreign in throwing and "
            "error_code form) with critical sections made of unprotected counter read-spin-write, multi-word pattern write/verify, yield, "
            "suspend on a side event, forced migration; non-trivial iff a lock() found the lock occupied AND a holder migrated or suspended "
            "inside its critical section; distinct by hash of the decoded case",
    "floor": {"quick": 30, "thorough": 300},
    "assumptions": ["a timed try_lock_for returning false is accepted whenever the lock may have been contended (non-claim)",
                    "spinlocks are not held across a suspension of the owner (documented use)"],
}
LEVEL_TEXT["C06"] = {
    "text": "Generated contention programs over all pika lock types run on the real runtime; oracles: occupancy counter (never >1, owner identity for recursive re-entry), torn-pattern detector for visibility between critical sections, try_lock true implies 0->1 occupancy, documented errors for misuse probes with the lock still usable afterwards, and the state-based quiescence detector reporting 'lockers blocked although the lock is free' as a lost unlock. Exploration level: schedule-dependent, sampled with perturbation at the named hand-off sites.",
    "note": "Interleavings sampled; timed false results are not judged; watchdog expiry is inconclusive.",
    "technique": "property-based testing (generated lock scripts, occupancy/visibility/deadlock oracles, fork-per-case real runtime)",
}

PROPS["C13"] = {
    "targets": [rt("props/C13_thread.cpp", 2500, 70, 30000, 900)],
    "rule": "case = scheduler config + perturbation plan at thread::join (between exit-callback registration and suspend), "
            "run_thread_exit_callbacks and the suspend/resume sites x 1..8 scenarios in {join, detach, self-join, interrupt, jthread}; "
            "thread bodies from {spin, yield, interruption_point, wait on event, disable_interruption scopes, spawn+join grandchild, sleep}; "
            "controller delays select whether the target terminates before, between or after the two steps of join; second join probes; "
            "exit callbacks; non-trivial iff a join really suspended AND (another join in the case found its target already done OR a wake-up "
            "hit a still-active joiner), or an interruption was delivered; distinct by hash of the decoded case",
    "floor": {"quick": 30, "thorough": 300},
    "assumptions": ["a wait that does not block is not an interruption point", "watchdog expiry is inconclusive"],
}
LEVEL_TEXT["C13"] = {
    "text": "Generated join/detach/self-join/interrupt/jthread scenarios on the real runtime with perturbation at the two sites the property names; oracles: body-finished and exit-callback flags read right after join returns, joinable() after join/detach, documented errors for double and self join, the op at which thread_interrupted surfaced must be an interruption point reached with interruption enabled and after a request (and an accepted request must be delivered at the next enabled interruption point), jthread destructor returns only after the body saw stop_requested and finished; join that never returns is caught by the state-based quiescence detector. Exploration: the three join paths are selected by the schedule, which is sampled.",
    "note": "Join-path coverage (refused callback / wake of active joiner / normal wake) is measured from hooks and reported in the evidence classification.",
    "technique": "property-based testing (generated thread scenarios, flag/ordering oracles, fork-per-case real runtime)",
}

def vt(src, q_cases, q_budget, t_cases, t_budget, shards=8, size=100, **kw):
    d = {"src": src, "flavour": "rel", "engine": "E-vt",
         "quick": {"shards": shards, "cases": q_cases, "budget": q_budget, "size": size},
         "thorough": {"shards": 12, "cases": t_cases, "budget": t_budget, "size": size},
         # every 3rd shard schedules with PCT (random priorities + few change points) instead of uniform choice
         "pct_every": 3,
         # small-scope systematic part: all schedules (<= preempt preemptions) of small generated cases
         "enumerate": {"quick": {"shards": 2, "cases": 400, "budget": 20, "size": 10, "max_schedules": 400, "depth": 60, "preempt": 2},
                       "thorough": {"shards": 4, "cases": 20000, "budget": 500, "size": 14, "max_schedules": 20000, "depth": 80, "preempt": 3}}}
    d.update(kw)
    return d

PROPS["C08"] = {
    "targets": [vt("props/C08_semaphore_vt.cpp", 15000, 60, 150000, 600),
                seq("props/C08_osthreads_stress.cpp", 80, 40, 2000, 600, shards=2, engine="E-stress")],
    "rule": "case = semaphore kind (counting_semaphore<>, counting_semaphore<1>, sliding_semaphore) x initial count x 2..4 logical threads "
            "with scripts over release(n)/acquire/try_acquire/try_acquire_for(inf|finite)/try_acquire_until(finite) (sliding: "
            "wait(u)/signal(l)/try_wait) x a schedule tape that decides every context switch at hook points and agent operations "
            "(the harness owns the schedule and the clock: a finite deadline passes only when the tape says so); supply covers every "
            "acquisition attempt by construction; non-trivial iff >=1 acquirer really blocked and was released later or a timed acquire "
            "slept before the release; distinct by hash of (scripts, schedule position). Second target (plain OS threads, E-stress, no runtime, the "
            "real default execution agent): semaphore kind x 1..2 releaser std::threads x 2..4 acquirer std::threads in {acquire, try_acquire polling, "
            "try_acquire_for(1 year), try_acquire_until(now + 1 year)} (sliding: wait(u) / try_wait(u) polling against one signaller) x 1..3 permits per "
            "acquirer and round x release batches 1..3 x 300..20000 rounds, each round published as soon as all acquirers acknowledged the previous "
            "one; oracle: shadow counter incremented before release and decremented after a successful acquire never goes negative and ends at 0, "
            "a year-long timed acquire never fails, no acquirer stays inside acquire for 10 s without any progress while permits are available, "
            "release()/signal() return, sliding wait(u) returns only after lower limit u - max_difference was signalled; non-trivial iff >=2 acquirers "
            "or >=1000 rounds",
    "floor": {"quick": 200, "thorough": 2000},
    "assumptions": ["sequentially consistent interleavings at hook/agent granularity only (no weak-memory effects)",
                    "wake-up before suspend is modelled as a pending token (the meaning the task path gives it)"],
}
LEVEL_TEXT["C08"] = {
    "text": "The real semaphores run on harness-owned virtual threads: the schedule is part of the generated case, so each execution is deterministic, shrinkable and all-blocked states are detected exactly. Oracles: permit ledger at every success (acquisitions <= initial + released), drain equality at the end, exact deadlock detection under sufficient supply, and for timed acquires: false only if the scheduler fired that deadline (the harness owns the clock). Exploration of schedules by generated tapes.",
    "note": "Schedules are sampled from generated tapes (tens of thousands per run), not exhausted; interleavings are at hook/agent-operation granularity and sequentially consistent. A second target (E-stress) runs the semaphores from plain std::threads through execution_base's real default agent (the OS-thread half of the quantifier); the schedule is not owned there, a miss proves nothing.",
    "technique": "property-based testing with harness-owned deterministic schedules (virtual threads), ledger and deadlock oracles",
}

PROPS["C09"] = {
    "targets": [vt("props/C09_latch_barrier_vt.cpp", 8000, 60, 100000, 600),
                seq("props/C09_osthreads_stress.cpp", 120, 40, 4000, 600, shards=2, engine="E-stress")],
    "rule": "case = primitive in {latch, barrier, event, call_once} x 2..4 logical threads x scripts (latch: count_down(k)*, then wait / "
            "arrive_and_wait(k) / try_wait polling, sum of decrements == count; barrier: expected = threads+extra (thread 0 stands in for "
            "1+extra via arrive(k)), 1..6 or 130 phases (uint8 phase wrap), per thread and phase arrive_and_wait / arrive+wait(token) / "
            "arrive_and_drop, completion function instrumented; event: set/reset/set.. vs waiters; call_once: callers with the first j "
            "attempts throwing) x schedule tape deciding every switch at hook points (latch notify loop, barrier ticket CAS) and agent "
            "operations; non-trivial iff latch/event waiter really blocked, or barrier expected count is not a power of two with >=3 phases "
            "or has a drop or crosses the phase wrap, or call_once has a throwing attempt with >=2 callers; distinct by hash of the case. Second target "
            "(plain OS threads, E-stress, no runtime, the real default execution agent): primitive x 2..5 std::threads x 300..10000 rounds started "
            "together from a harness spin barrier with generated skews (latch: a fresh latch per round, per thread count_down(0..2) then wait / "
            "arrive_and_wait(1) / try_wait polling / nothing; barrier: one barrier for all phases, arrive_and_wait or arrive+wait(token) per thread, "
            "optionally one thread arrive_and_drops at a generated phase, instrumented completion function; event: one setter (set, wait for the "
            "waiters to leave, reset) vs waiters; call_once: a fresh once_flag per round, the first 0..2 attempts throw); shadow state is written "
            "before the call that publishes and read after the call that waits; a state where every unfinished thread is inside a waiting call of "
            "the primitive or parked behind one for 10 s is a lost wake-up; non-trivial iff >=3 threads or >=2000 rounds",
    "floor": {"quick": 200, "thorough": 2000},
    "assumptions": ["sequentially consistent interleavings at hook/agent granularity", "a participant waits for its arrival token before arriving again"],
}
LEVEL_TEXT["C09"] = {
    "text": "The real latch, barrier, event and call_once run on harness-owned virtual threads under generated schedules; oracles are history invariants over harness-side sequence counters: no wait/arrive_and_wait returns before all decrements have at least started, per barrier phase every departure follows exactly one completion call which follows all expected arrivals (drops reduce the next phase's expectation), event waiters return only after a set started and all return, call_once body succeeds exactly once with exceptions reaching only their own caller; all-blocked states are exact deadlocks.",
    "note": "Schedules sampled by generated tapes; SC interleavings at hook/agent granularity; barrier tree collisions depend on thread-id hashing, which is whatever the OS threads get. A second target (E-stress) runs the primitives from plain std::threads through execution_base's real default agent (the OS-thread half of the quantifier) with the same shadow-state invariants; the schedule is not owned there, a miss proves nothing.",
    "technique": "property-based testing with harness-owned deterministic schedules (virtual threads), history-invariant oracles",
}

PROPS["C07"] = {
    "targets": [vt("props/C07_condvar_vt.cpp", 15000, 60, 150000, 600),
                vt("props/C07_stop_vt.cpp", 6000, 40, 100000, 600, shards=6),
                vt("props/C07_permits_vt.cpp", 6000, 40, 100000, 600, shards=6),
                seq("props/C07_osthreads_stress.cpp", 60, 40, 2000, 600, shards=2, engine="E-stress")],
    "rule": "case = 1..3 waiters x 1..3 generations published by a notifier (notify_all, or notify_one when at most one waiter can be waiting; "
            "inside or after the user lock) x per waiter 1..2 waits in {wait(l,pred), wait_for(l,inf,pred), wait_until(l,finite,pred), "
            "wait_until(l,inf) loop, wait(l,stop_token,pred) with a generated request_stop point, wait(l) loop} on condition_variable_any over "
            "a harness lock whose lock/unlock are decision points x schedule tape; non-trivial iff a notification arrived between a waiter's "
            "release of its locks and the completion of its suspension (wake-up consumed before suspend) or a timed wait was notified; "
            "distinct by hash of the case. Second target (stop-token waits): 2..4 waiters in {wait, wait_for(inf), wait_until(finite)} with "
            "stop_token, each listening to one of 1..3 stop sources, predicates that become true at a generation or never, 0..2 published "
            "generations, every source stopped exactly once at a generated point by the notifier or a separate stopper thread; oracle: return "
            "value == pred(), false only if the own token was stopped (or the harness clock let the deadline pass), lock owned, and any "
            "all-blocked state is a missed stop request; non-trivial iff a wait was released by a stop request only while another source was "
            "stopped during some wait. Third target (permits): 2..4 waiters of mixed kinds {wait(pred), wait_for(finite,pred), wait_until(finite) loop, "
            "wait_for(inf,pred)} use the cv as a permit counter; the notifier publishes one permit per waiter (+0..1) one at a time with notify_one; "
            "oracle: a waiter gives up only if the harness clock let its deadline pass, permits are conserved, an all-blocked state with a permit "
            "available is a lost notification; non-trivial iff >=2 waiters blocked and a deadline fired. Fourth target (plain OS threads, E-stress): "
            "user lock in {std::mutex, pika's spinlock, test-and-set spin lock, yielding test-and-set lock} x 1..3 waiter std::threads in {wait(l) loop, "
            "wait(l,pred), wait_for(l,1 year,pred), wait_until(l,now+1 year) loop, wait(l,stop_token,pred)} x notify_all / notify_one (single waiter) "
            "inside or after the user lock x 500..30000 generations published as soon as every waiter acknowledged the previous one (so notifications "
            "keep landing while waiters are between enqueue and suspension in the default execution agent) x optional final request_stop for the "
            "stop-token waiters; no runtime, real threads; oracle: no waiter stays inside a wait whose predicate is true after the notification for it "
            "returned (10 s without any progress), no notify call hangs, lock owned on return, predicate forms return pred(), year-long deadlines never "
            "report timeout; non-trivial iff >=2 waiters or >=2000 generations",
    "floor": {"quick": 200, "thorough": 2000},
    "assumptions": ["SC interleavings at hook/agent/user-lock granularity", "spurious wake-ups are allowed; only condition_variable_any runs without the runtime (pika::condition_variable + pika::mutex is covered through C01/C02 programs)"],
}
LEVEL_TEXT["C07"] = {
    "text": "The real condition_variable_any (all wait forms incl. stop-token waits) runs on harness-owned virtual threads with the user lock's lock/unlock, the internal cv hook points and every agent operation as schedule decision points. Oracle: every waiter's predicate becomes true at a published generation and every generation is followed by a notification that must reach it, so any all-blocked state is exactly a lost notification; additionally lock ownership on return, predicate/timed/stop-token return values, and 'timeout reported only if the harness clock let the deadline pass'.",
    "note": "Schedules sampled from generated tapes; pika::condition_variable with pika::mutex needs task ids and is exercised only in the real-runtime programs of C01/C02 (event kinds mutex_cv / timed_cv, channels cv+pika::mutex). Two further E-vt targets: stop-token waits with several stop sources and never-true predicates, and a permit-counter target with mixed timed/untimed waiters under notify_one that counts notifications delivered against waits returned as notified. A fourth target (E-stress) runs condition_variable_any from plain std::threads without a runtime, i.e. through execution_base's default agent that the E-vt targets replace by their own; the schedule is not owned there (start skews and a protocol that aims notifications at the enqueue-to-suspend window), a miss proves nothing.",
    "technique": "property-based testing with harness-owned deterministic schedules (virtual threads), deadlock-as-lost-notification oracle",
}

PROPS["C14"] = {
    "targets": [seq("props/C14_stop_history.cpp", 20000, 50, 300000, 600, shards=6),
                vt("props/C14_stop_vt.cpp", 15000, 60, 150000, 600, shards=6),
                rt("props/C14_stop_rt.cpp", 120, 45, 3000, 600, shards=6)],
    "rule": "history part: case = 1..24 commands over 4 stop_source slots, 4 stop_token slots and 6 stop_callback slots (construct, nostopstate, "
            "copy/move construct, copy/move/self assign, swap, destroy, get_token, request_stop, register callback whose body may destroy itself, "
            "destroy another callback or register a further one, deregister); after every command stop_possible()/stop_requested() of every live "
            "handle, request_stop() results and callback run counts are compared with a reference model; non-trivial iff the history assigns "
            "over a source that owned a different state or has a callback body action. race part (E-vt): 1..3 concurrent request_stop callers x 1..3 "
            "callbacks registered / held / destroyed by their own logical threads, bodies that step, destroy themselves or another callback, under a "
            "schedule tape with decision points at the stopper loop (before/after execute) and at remove_callback; non-trivial iff >=2 racing "
            "stoppers or a deregistration overlapped the stopper loop; distinct by hash. real-runtime part (E-rt): request_stop from a pika task or an "
            "OS thread x 1..3 callbacks whose bodies yield the calling task 0..3 times and may destroy themselves x per callback a destroyer (pika "
            "task with optional worker hint / OS thread) that starts after a generated number of body yields x runtime config (1..4 workers, 8 "
            "policies, perturbation); oracle: a destructor called from another task/thread returns only when the body is not running, no body "
            "starts after its destructor returned, at most once / exactly once, self-destruction returns; non-trivial iff a destructor overlapped "
            "a suspended callback",
    "floor": {"quick": 200, "thorough": 2000},
    "assumptions": ["self-move-assignment is not generated", "callbacks destroyed by other callbacks during request_stop are only required to run at most once"],
}
LEVEL_TEXT["C14"] = {
    "text": "Model-based property testing of copy/move/assign/swap/destroy histories of stop_source, stop_token and stop_callback against a reference model of stop states (source counts, requested flag, registered callbacks), plus generated deterministic schedules (virtual threads) for the races between request_stop, callback registration and deregistration with exactly-once / not-after-destruction / destructor-waits oracles.",
    "note": "History part is sequential; race part explores SC interleavings at hook and agent granularity from generated tapes. A third target runs on the real runtime: callbacks that suspend the task running request_stop, destroyers on other tasks / OS threads (the 'own thread vs other thread' clause for tasks sharing OS workers).",
    "technique": "model-based property testing (operation histories vs reference model) + harness-owned schedules for the races",
}

PROPS["C17"] = {
    "targets": [vt("props/C17_queues_vt.cpp", 15000, 60, 200000, 600),
                seq("props/C17_queues_stress.cpp", 60, 40, 1500, 600, shards=2, engine="E-stress")],
    "rule": "case = container in {contiguous_index_queue (ranges up to 11 wide incl. ranges ending at 2^32-1), lock-free deque with a 2-node "
            "freelist, lockfree_fifo, lockfree_lifo, abp_fifo, abp_lifo back-ends} x 1..4 logical threads x scripts of push/pop at both ends "
            "(own/steal for the back-ends) x schedule tape with decision points at the index queue's load->CAS windows and the deque's anchor "
            "load / unstabilised push / stabilize / pop sites; single-threaded cases are checked against a std::deque reference model of the "
            "stated end order, concurrent cases against the multiset ledger (at most once while running, exactly once after a drain); "
            "non-trivial iff sequential-model case or >= one context switch per thread beyond the start; distinct by hash. Second target "
            "(real std::threads, no baton): container x 1..3 producers x 1..4 consumers x 200/2000/20000 elements per producer x 1..3 rounds x "
            "yield-perturbation at the containers' hook sites, same ledger; non-trivial iff >=3 threads and >=2000 elements per producer",
    "floor": {"quick": 200, "thorough": 2000},
    "assumptions": ["E-vt part: SC interleavings at hook granularity; the real-thread part samples whatever interleavings and store-buffer effects this x86 machine produces, it does not enumerate them"],
}
LEVEL_TEXT["C17"] = {
    "text": "The real containers run on harness-owned virtual threads with decision points inside their CAS loops (hook sites); every value pushed is unique, a ledger checks that no value is returned twice or invented at any time and that all values come out after producers finished and the container was drained; single-threaded cases are compared step by step with a std::deque reference model of each container's stated end order.",
    "note": "Sequentially consistent interleavings at hook granularity, sampled from generated tapes; a second generated real-thread target runs the same ledger under free-running std::threads so that store-buffer effects of this x86 machine are at least sampled. E-vt schedules are additionally chosen by PCT and, for small cases, enumerated exhaustively under a preemption bound.",
    "technique": "property-based testing with harness-owned deterministic schedules + sequential reference model (differential)",
}

PROPS["C04"] = {
    "targets": [vt("props/C04_rw_mutex_vt.cpp", 15000, 60, 200000, 600),
                seq("props/C04_rw_mutex_stress.cpp", 120, 40, 4000, 600, shards=2, engine="E-stress")],
    "rule": "case = request sequence over {read, readwrite} of length 1..8 issued by one logical thread (as the API requires) x per request a "
            "starter thread, an action (connect+start / drop the sender unstarted / additionally start a copy of the read sender), start "
            "delay, hold time, optional copy of the read wrapper released later x optional early destruction of the mutex x schedule tape "
            "with decision points in add_op_state (before the CAS) and done() (around the exchange); non-trivial iff >=2 access groups and "
            "(a read group with >=2 reads or an unstarted drop) and the schedule really interleaved the threads; distinct by hash. Second target "
            "(real OS threads, E-stress): async_rw_mutex<int> or (1 case in 3) the separately implemented async_rw_mutex<void> x request sequence of "
            "length 2..8 issued in order by the main thread x per request one of 2..4 std::threads "
            "that starts it (or drops it unstarted), hold time, optional wrapper copy x 300..3000 rounds on a fresh mutex with the generated start "
            "skews swept; oracle: occupancy counters (read-write alone, reads only with reads), at grant time every started access of every earlier "
            "group has been released (bookkeeping before the wrapper is destroyed), value == number of earlier started read-write accesses, every "
            "started request granted exactly once and within 10 s of all earlier ones being released; non-trivial iff >=2 groups",
    "floor": {"quick": 200, "thorough": 2000},
    "assumptions": ["accesses dropped unstarted are granted/released by start_detached invisibly to the harness; order oracles range over observed accesses",
                    "SC interleavings at hook/agent granularity"],
}
LEVEL_TEXT["C04"] = {
    "text": "The real async_rw_mutex<int> runs on harness-owned virtual threads: generated request sequences, starter placement, drops, sender and wrapper copies and early mutex destruction under generated schedules with decision points inside the lock-free queue hand-off. Oracles over the grant/release log: no read-write access overlaps anything, reads overlap only reads of the same group, no access is granted before all observed accesses of earlier groups are released, each started access is granted exactly once and eventually (a waiting access in an all-blocked state is reported exactly), and every access observes the number of earlier read-write increments (value outlives the mutex).",
    "note": "Schedules sampled from generated tapes; SC interleavings at hook granularity. A second target (E-stress) runs the same kind of request sequences with the starts, holds and releases on real OS threads (windows inside one atomic operation, real memory ordering); there the schedule is not owned, a miss proves nothing.",
    "technique": "property-based testing with harness-owned deterministic schedules, grant/release history invariants",
}

PROPS["C03"] = {
    "targets": [rt("props/C03_senders.cpp", 1500, 70, 20000, 900),
                vt("props/C03_race_vt.cpp", 6000, 40, 100000, 600, shards=6),
                seq("props/C03_race_stress.cpp", 150, 40, 4000, 600, shards=2, engine="E-stress")],
    "rule": "case = pipeline term (depth <= 5, <= 15 nodes) over leaves {just, transfer_just, schedule|then, instrumented leaf sender with "
            "channel in value/error/stopped and timing in inline / later on the pool / later on a plain OS thread} and adaptors {then, "
            "then(throw), let_value, let_error, continues_on, drop_value|then, drop_operation_state, require_started, ensure_started, split "
            "(1..3 consumers), split_tuple, unpack, bulk, any_sender copy, when_all (2..3), when_all_vector (1..3)}; every edge erased to "
            "unique_any_sender<P> so the real adaptors compose at run time; terminal = own receiver (connect+start) or sync_wait; run on the "
            "real runtime (1..4 workers, 8 policies, perturbation); non-trivial iff depth >= 3 and (a non-value leaf or a shared-state "
            "adaptor with an asynchronous leaf beneath it); distinct by hash of the decoded case. Race target (E-vt): adaptor in {split, ensure_started, split(ensure_started), split_tuple, when_all, when_all_vector} over 1..3 leaf senders whose completion (value / error / stopped, inline or by a designated logical thread after a delay) races with 1..3 consumers being connected and started (or dropped unstarted) by other logical threads; decision points at hook sites 120-130 inside the adaptors' predecessor_done / continuation hand-off and finish() counters, at spinlock and agent operations; oracle: every started consumer gets exactly one admissible completion, no predecessor is started twice, any all-blocked/spinning state is a lost completion or (with the poisoning allocator) a thread stuck on freed memory; in half of the cases every consumer's operation state is destroyed by its starter as soon as it has seen the completion signal (as sync_wait / start_detached do) instead of at the end of the case; non-trivial iff a consumer start overlapped a predecessor completion. Real-thread race target (E-stress): the same adaptors with 2..4 consumers that connect/start at (nearly) the same instant on their own OS threads while one more OS thread per predecessor completes it, repeated for 300..3000 rounds per case with the generated start skews swept over a span of 8..4096 spin iterations; oracle per round: predecessor operation started exactly once, exactly one admissible completion per consumer, no consumer without a signal 5 s after every predecessor completed; non-trivial iff two actors were inside the adaptor at once in some round",
    "floor": {"quick": 100, "thorough": 1000},
    "assumptions": ["when_all with several failing children may deliver any one of their non-value signals (set-valued oracle)",
                    "sync_wait is only used on terms that cannot complete with stopped (its return type cannot express it)",
                    "static adaptor-on-adaptor composition is not covered by the erased edges"],
}
LEVEL_TEXT["C03"] = {
    "text": "Generated sender pipelines are built from the real adaptors (edges type-erased so that terms can be generated at run time), started on the real runtime and judged against a reference interpreter that computes the set of admissible completions of the same term: exactly one signal on the terminal receiver (checked again after a grace barrier), the signal is admissible (value payload / same exception id / stopped), tracked payloads and leaf operation states are balanced (none leaked, none used after destruction), a never-signalled receiver is caught by the state-based quiescence detector.",
    "note": "Schedules for asynchronous leaves are sampled (perturbation, 1..4 workers); un-erased static compositions are not generated. A second target (E-vt) races the predecessor's completion against consumers being connected/started in split / ensure_started / split_tuple / when_all(_vector) with decision points inside the adaptors (hook sites 120-130); a poisoning quarantine allocator makes touching a destroyed operation state visible. A third target (E-stress) repeats the same races on real OS threads with swept start skews, for windows that contain no decision point for the virtual-thread engine (e.g. the first-start election of split being one read-modify-write); there the schedule is not owned by the harness, a miss proves nothing.",
    "technique": "property-based testing (generated terms, reference interpreter as oracle, lifetime ledger, fork-per-case real runtime)",
}

PROPS["C18"] = {
    "targets": [seq("props/C18_type_erasure.cpp", 20000, 50, 300000, 600, shards=6)],
    "rule": "case = history of 1..28 commands over 4 function + 4 unique_function variables (or 4 any_sender + 4 unique_any_sender variables): "
            "assign an object (callables of 7 kinds: tiny / <=24 B / >24 B / align 32 / move-only small and big / address-sensitive small; "
            "senders small and 200 B on each completion channel), default/copy/move construct, copy/move/self assign, reset, swap, invoke "
            "(l-value and r-value connect+start for senders), emptiness checks; after every command empty()/bool of all wrappers equals the "
            "model, every invocation equals what the un-erased original does in the same state (differential), use of an empty wrapper raises "
            "the documented error; a construction/destruction ledger must balance; non-trivial iff the history assigns into a non-empty "
            "wrapper and holds both an object larger than the inline buffer and a smaller one; distinct by hash",
    "floor": {"quick": 200, "thorough": 2000},
    "assumptions": ["PIKA_DETAIL_ENABLE_ANY_SENDER_SBO (opt-in) is not the configuration users get and is not exercised"],
}
LEVEL_TEXT["C18"] = {
    "text": "Model-based property testing: generated operation histories over pika's function/unique_function and any_sender/unique_any_sender wrappers, checked after every step against a reference model of emptiness and against the un-erased original for every invocation / completion (differential oracle), with a lifetime ledger (each contained object destroyed exactly once, never used afterwards, address-sensitive objects never relocated without their move constructor) and the documented error for use of an empty wrapper.",
    "note": "Sequential by nature; inputs are histories, not schedules.",
    "technique": "model-based property testing (operation histories vs reference model, differential against the unerased object)",
}

PROPS["C11"] = {
    "targets": [rt("props/C11_bulk.cpp", 800, 70, 10000, 900)],
    "rule": "case = scheduler config (1..16 workers, 8 policies, perturbation at the index-queue CAS windows) x shape type in {int, unsigned, "
            "size_t, long} x n from boundary classes {0..3; k*W and k*W+-1 for k in 1,2,8,16; 2^k and 2^k+-1 up to 2^20; random <= 200000; "
            "huge shapes around 2^31 and 2^32 (rare)} x predecessor in {transfer_just on the pool, schedule|then, continues_on after another "
            "task, just (generic sequential bulk)} with 0..2 values x 0..3 throwing indices (incl. the last index) x worker hint; "
            "non-trivial iff n > 8*workers on the pool path or a throwing index; distinct by hash",
    "floor": {"quick": 100, "thorough": 1000},
    "assumptions": ["for huge shapes a per-index bitmap is infeasible: call count and index sum are compared with closed forms (necessary conditions)",
                    "the does-not-return clause is judged by a no-progress detector (zero callbacks and no signal for 10 s), used for the huge-shape class only"],
}
LEVEL_TEXT["C11"] = {
    "text": "Generated (shape type, n, worker count, predecessor, throwing set) cases run the real pool bulk and the generic bulk; oracles: per-index test-and-set bitmap (no index twice, none out of range), call count == n, predecessor values unchanged in every call and at the receiver, exactly one receiver signal and no call of f still running at that moment, with throwing indices exactly one error whose id was really thrown and no value, n == 0 completes with zero calls.",
    "note": "Chunk stealing interleavings are sampled (perturbation at the index queue's load/CAS windows, CPU restriction).",
    "technique": "property-based testing (boundary-biased shapes, bitmap/ledger oracles, fork-per-case real runtime)",
}

PROPS["C10"] = {
    "targets": [rt("props/C10_placement.cpp", 800, 70, 10000, 900)],
    "rule": "case = layout of 1..4 pools (default + pools created through the resource partitioner; 7 scheduling policies; 1..4 workers each; "
            "stealing on/off) x 1..7 jobs submitted from the main OS thread or from a task of a generated pool, each a pipeline of 1..5 hops in "
            "{schedule, transfer_just, continues_on, bulk, std_thread_scheduler} (or a single execute) on generated pools with hint / "
            "priority decorations and bodies that yield, suspend (woken from another pool) or both; every callable records pool, local "
            "worker, task id and OS thread at entry and after every re-activation; non-trivial iff >=2 pools with different policies and "
            ">=2 pool crossings by continues_on, or a hinted normal-priority task on a static policy ran >=3 phases; distinct by hash",
    "floor": {"quick": 50, "thorough": 500},
    "assumptions": ["shared-priority pools are not generated here (see C13 known finding F10 / C02 fix)", "layouts that the machine cannot realise are discarded"],
}
LEVEL_TEXT["C10"] = {
    "text": "Generated pool layouts and scheduler pipelines run on the real runtime; inside every callable and after every yield/suspension the harness records pool, local worker, task id and OS thread and compares with the placement the pipeline denotes: task context present, pool equals the scheduler's pool, a different task than the submitter/previous hop (never inside the submitting call), static policy + normal priority + hint => every phase on the hinted worker, std_thread_scheduler work on a non-pika non-worker thread.",
    "note": "Placement under stealing is schedule dependent and sampled; the machine has 16 PUs, layouts use at most 14 workers, unbound (bind=none) so that parallel shards do not pile on the same PUs.",
    "technique": "property-based testing (generated pool layouts x scheduler pipelines, placement recorder oracle)",
}

PROPS["C12"] = {
    "targets": [rt("props/C12_context.cpp", 600, 70, 8000, 900)],
    "rule": "case = scheduler config + configured stack sizes for the four classes (page aligned sets) + guard pages on/off + 1..3 waves of "
            "1..12 tasks; each task = stack class, recursion using 10..85% of the configured stack with a canary array per frame, actions at "
            "spread depths in {yield, suspend (woken by another task), forced migration, register probe around a yield / a suspension (asm stub "
            "loading rbx, rbp, r12-r15)}, floating point locals across the action, task data / thread id compared, and 'dirt' left behind "
            "for the next user of the thread object (task data, open disable_interruption scope, unconsumed interruption request); "
            "non-trivial iff a task was resumed on a different worker at depth >= 3, a thread object was rebound and an earlier wave left "
            "dirt; distinct by hash",
    "floor": {"quick": 30, "thorough": 300},
    "assumptions": ["per-task isolation of the floating point environment (MXCSR / x87 control word) is not asserted: pika's context switch deliberately does not save it",
                    "usable stack is probed up to 85% of the configured size minus 16 KiB of slack"],
}
LEVEL_TEXT["C12"] = {
    "text": "Generated tasks of all four stack classes with generated configured sizes recurse deep into their stacks writing canaries, yield / suspend / migrate at generated depths (including from a hand-written register probe that loads the callee-saved registers before the switch), and verify on the way back up that every canary, register, floating point local, task-local datum and the thread id is unchanged; the reported stack size must equal the configured size of the class, live stacks must be disjoint, and a task that reuses a recycled thread object must start clean although earlier waves deliberately leave dirt.",
    "note": "Migration and recycling are schedule dependent and sampled; stack overflow of a too-small stack is detected as a crash (guard pages) or canary corruption.",
    "technique": "property-based testing (generated stack/suspension programs, canary + register probe + ledger oracles, fork-per-case real runtime)",
}

PROPS["C19"] = {
    "targets": [rt("props/C19_suspend_resume.cpp", 500, 70, 8000, 900)],
    "rule": "case = controller pool (default) + target pool created through the resource partitioner (7 policies, 2..6 workers, elasticity "
            "on/off, stealing on/off) x history of 1..14 operations in {suspend_processing_unit_direct(k), resume_processing_unit_direct(k) "
            "(from the main OS thread or from a controller-pool task), suspend_direct + work queued during suspension + resume_direct, task "
            "burst (hinted to a worker or unhinted, yielding or not), burst racing a suspend from another OS thread, burst while workers "
            "sleep, refusal probes (suspend without elasticity in throwing and error_code form; a pool suspending itself)}; the last running "
            "worker is never suspended; non-trivial iff >=2 suspend/resume pairs with a burst racing a suspend, or a refusal probe; distinct by hash",
    "floor": {"quick": 30, "thorough": 300},
    "assumptions": ["work queued on a worker at the moment it goes to sleep may wait for that worker's resume (the statement allows it); only loss, duplication, "
                    "execution on a definitely suspended worker, a call that does not return and a refused operation that has an effect are violations"],
}
LEVEL_TEXT["C19"] = {
    "text": "Generated suspend/resume histories of processing units and whole pools, interleaved with task bursts (hinted/unhinted, racing the suspend), run on the real runtime with an elastic target pool; oracles: completion ledger after a final resume-all (nothing dropped or duplicated), no task body on a worker between 'suspend returned' and 'resume called', no body on a suspended pool, the calls return (state-based quiescence detector), and refused operations (no elasticity, self-suspension) report the documented error and leave the number of active workers unchanged.",
    "note": "Interleavings of submitters and the suspend hand-shake are sampled; the controller pool is never saturated with blocking callers.",
    "technique": "property-based testing (generated suspend/resume histories, ledger + window oracles, fork-per-case real runtime)",
}

def procs(src, q_cases, q_budget, t_cases, t_budget, shards=12, **kw):
    d = {"src": src, "flavour": "rel", "engine": "E-proc",
         "quick": {"shards": shards, "cases": q_cases, "budget": q_budget, "size": 100},
         "thorough": {"shards": shards, "cases": t_cases, "budget": t_budget, "size": 100}}
    d.update(kw)
    return d

PROPS["C15"] = {
    "targets": [procs("props/C15_pinning.cpp", 2000, 70, 30000, 900)],
    "rule": "case = topology (synthetic hwloc 'pack:p core:c pu:t' with p in 1..4, c in 1..8, t in {1,2,4}, at most 16 PUs (masks are sized by the real hardware concurrency), or the real 1x16x1 "
            "machine) x process mask (full / random subset / contiguous window / one hardware thread per core on later sockets; via "
            "--pika:process-mask, PIKA_PROCESS_MASK or --pika:ignore-process-mask) x threads in {1..#PUs(mask)+1, cores, all} x bind in "
            "{compact, scatter, balanced, numa-balanced, none, default} x optional second pool taking 1..2 PUs through the resource "
            "partitioner; the live runtime dumps per-worker affinity masks, reported PU numbers, pool sizes (and sched_getaffinity of every "
            "worker on the real topology); non-trivial iff SMT or multi-socket topology with a strict-subset mask and >=2 threads; distinct by hash",
    "floor": {"quick": 50, "thorough": 500},
    "assumptions": ["under synthetic topologies hwloc cannot really bind: OS-level affinity is compared only on the real topology"],
}
LEVEL_TEXT["C15"] = {
    "text": "Generated (topology, process mask, thread count, binding mode, pool partition) configurations start the real runtime in a fresh process under hwloc synthetic topologies; validity predicates on what the live runtime reports: every worker bound to exactly one PU (bind != none), inside the effective mask, pairwise distinct, reported PU number equal to the bound PU, pool sizes summing to the worker count, 'cores' = one worker per core in the mask, 'all' = PUs in the mask, a thread count above the PUs in the mask rejected at start-up, bind=none leaves workers unbound; on the real topology also sched_getaffinity of every worker.",
    "note": "One physical topology; multi-socket / SMT paths are reached through HWLOC_SYNTHETIC, where the OS-level binding itself cannot be observed.",
    "technique": "property-based testing (generated configurations, validity predicates on the live runtime's report, one process per case)",
}

PROPS["C16"] = {
    "targets": [procs("props/C16_config.cpp", 1500, 70, 20000, 900),
                {"src": "fuzz/C16_ini_fuzz.cpp", "kind": "fuzz", "engine": "E-fuzz", "extra_src": ["libs/pika/ini/src/ini.cpp"],
                 "quick": {"shards": 4, "budget": 25, "max_len": 256}, "thorough": {"shards": 8, "budget": 600, "max_len": 512}}],
    "rule": "case = 1..3 settings out of {threads, scheduler, small stack size, bind, process mask, a plain existing ini entry (pika.max_busy_loop_count; unknown keys are rejected by pika)}, each given "
            "through a generated subset of its sources {environment variable, PIKA_COMMANDLINE_OPTIONS, --pika:ini=key=value, dedicated "
            "option} with pairwise distinct valid values (stack sizes in hex or decimal), options and positional arguments interleaved in a "
            "generated order, optional '--' tail; or one invalid input (non-numeric / zero thread count, unknown --pika: option, unknown "
            "scheduler, garbage in PIKA_THREADS or in a stack size); the probe is a freshly exec'ed process whose entry function reports what "
            "the live runtime uses; non-trivial iff some setting has >=2 sources or the input is invalid; distinct by hash. Second target "
            "(libFuzzer + ASan + UBSan, ini.cpp compiled into the target for coverage): structure-aware ini texts (sections, key = value, "
            "${ENV:default} / $[key] expansions, raw garbage lines) against a reference parser for the well-formed subset (later lines "
            "override earlier ones), clean-rejection, expansion and dump round-trip oracles; its distinct count is the number of corpus units "
            "(coverage-increasing inputs), counted conservatively",
    "floor": {"quick": 50, "thorough": 500},
    "assumptions": ["reference order (docs/usage.rst + statement): dedicated option > --pika:ini on the command line > environment variable; dedicated option > "
                    "PIKA_COMMANDLINE_OPTIONS > environment variable; the relative order of --pika:ini and PIKA_COMMANDLINE_OPTIONS is not claimed and not generated",
                    "application options other than positional arguments need pika.commandline.allow_unknown and are not generated",
                    "'stops start-up with an error' is judged liberally: the entry function never runs and the process reports failure (exception, terminate or non-zero result)"],
}
LEVEL_TEXT["C16"] = {
    "text": "Generated combinations of sources per setting with distinct values (so the winner is identifiable) are applied to a freshly exec'ed probe process; the reference model is the documented precedence order; the observed value is what the live runtime uses (worker count, scheduler of the default pool, stack size a default task really runs on and can touch, pinned vs unpinned workers, config entry, argv seen by the entry function, init's result); invalid values and unknown pika options must keep the entry function from running and report failure.",
    "note": "One process per case on the real 1x16x1 topology; binding modes other than none are only distinguished from 'none'.",
    "technique": "property-based testing (generated source/value combinations vs reference precedence model, one exec'ed process per case)",
}

def rtmpi(src, q_cases, q_budget, t_cases, t_budget, shards=8):
    return {"src": src, "flavour": "mpi", "engine": "E-rt",
            "quick": {"shards": shards, "cases": q_cases, "budget": q_budget, "size": 100},
            "thorough": {"shards": shards, "cases": t_cases, "budget": t_budget, "size": 100}}

PROPS["C20"] = {
    "targets": [rtmpi("props/C20_mpi.cpp", 150, 80, 3000, 900)],
    "rule": "case = batch of 1..4 programs run between one MPI_Init_thread(MPI_THREAD_MULTIPLE) and MPI_Finalize (singleton MPI, rank 0 to rank 0); "
            "program = completion mode 0..31 (handler method yield_while / suspend_resume / new_task / continuation x request-inline x "
            "completion-inline x high-priority), 1..6 workers, dedicated polling pool requested or not, polling size in {1,4,8,32}, 1..72 "
            "Irecv/Isend pairs issued from tasks through transform_mpi (sizes 0 B .. 1 MiB crossing the eager/rendezvous threshold, unique "
            "tags, receive posted before or after the send, sends in a scattered order), 1..2 sequential enable_polling scopes, pika::wait() "
            "while requests are in flight; non-trivial iff a program has >=8 pairs, a message >= 70000 B and a mode other than the default; "
            "distinct by hash",
    "floor": {"quick": 10, "thorough": 100},
    "assumptions": ["one rank only (no network in the sandbox): cross-rank ordering is out of reach; MPIX continuations are not available in OpenMPI 4.1.4",
                    "a lost completion is reported when the matching send has signalled, the receive buffer holds the complete data and nothing at all happened for 3 s"],
}
LEVEL_TEXT["C20"] = {
    "text": "Generated MPI programs (all 32 completion modes, polling pool on/off, polling sizes, 1..72 concurrent self-addressed Irecv/Isend pairs of 0 B..1 MiB, scattered completion order, sequential polling scopes) run on the MPI build of the runtime; oracles: every receive and send sender signals its receiver exactly once, the received buffer equals the sent pattern at continuation time (transfer complete => data visible), pika::wait() does not return while requests are in flight and the MPI work count is 0 afterwards, shutdown does not return earlier; lost completions are caught by a monitor.",
    "note": "Singleton MPI only; interleavings of pollers and submitters are sampled.",
    "technique": "property-based testing (generated MPI programs over all completion modes, signal-count and payload oracles)",
}
