"""Per-property check configuration (targets, tiers, floors, evidence rule text)."""

def rt(src, q_cases, q_budget, t_cases, t_budget, shards=12, flavour="rel", size=100, **kw):
    d = {"src": src, "flavour": flavour, "engine": "E-rt",
         "quick": {"shards": shards, "cases": q_cases, "budget": q_budget, "size": size},
         "thorough": {"shards": shards, "cases": t_cases, "budget": t_budget, "size": size}}
    d.update(kw)
    return d

def seq(src, q_cases, q_budget, t_cases, t_budget, shards=4, flavour="rel", size=100, engine="E-seq", **kw):
    d = {"src": src, "flavour": flavour, "engine": engine,
         "quick": {"shards": shards, "cases": q_cases, "budget": q_budget, "size": size},
         "thorough": {"shards": shards * 2, "cases": t_cases, "budget": t_budget, "size": size}}
    d.update(kw)
    return d

PROPS = {
    "C01": {
        "targets": [rt("props/C01_exactly_once.cpp", 400, 70, 6000, 900)],
        "rule": "case = (scheduler config incl. policy/workers/stealing/queue params/CPU restriction/perturbation plan) x "
                "(generated task forest: creation methods, priorities, stack sizes, hints, yields, event waits, joins, "
                "external submitters, waves), decoded from a rapidcheck-generated choice tape and run in a fresh process; "
                "non-trivial iff the hook monitor observed >=1 task resumed on a different worker (migration/steal) or >=1 "
                "suspension or >=1 thread-object rebind; distinct by hash of the decoded case",
        "floor": {"quick": 50, "thorough": 500},
        "assumptions": ["real OS scheduling: interleavings are sampled (biased by perturbation plans and CPU starvation), not enumerated",
                        "watchdog expiry is reported as inconclusive, never as a violation"],
    },
}

NOT_APPLICABLE = {}

LEVEL_TEXT = {
    "C01": {
        "text": "Generated-input search: thousands of generated (scheduler configuration x task program x perturbation plan) cases per run are executed on the real runtime, each in a fresh process, and judged by a completion ledger (entered==finished==1 per task after pika::wait), a hook-fed single-runner monitor around the coroutine call, an in-body two-runner detector and a state-based deadlock detector. Exploration is the right level: the property quantifies over schedules of the real scheduler, which can be sampled with bias but not enumerated.",
        "note": "Trusts the harness ledger/monitor code and the OS; interleavings are sampled (perturbation at the named hand-off sites, CPU starvation, 8 policies, 1..16 workers), never exhausted; a watchdog expiry is inconclusive, not a violation.",
        "technique": "property-based testing (rapidcheck choice tape, fork-per-case real runtime, ledger + hook monitor oracles)",
    },
}

PROPS["C02"] = {
    "targets": [rt("props/C02_lost_wakeup.cpp", 500, 70, 8000, 900)],
    "rule": "case = scheduler config (1..8 workers, 8 policies, CPU restriction) with a MANDATORY perturbation plan at the hand-off sites "
            "(cv wait between unlock and suspend, do_yield, after the coroutine returned / store_state, set_thread_state before CAS / before "
            "schedule, set_active_state helper, notify, join, exit callbacks) x 1..6 ping-pong channels (facility in semaphore / cv+mutex / "
            "cv_any+spinlock / latch / event / thread::join / sync_wait; waker on a task or a plain OS thread; 1..60 rounds; hints; delays); "
            "non-trivial iff >=1 wake-up hit the active-target path (set_thread_state found the target still active and scheduled the "
            "set_active_state helper task), observed through hooks; distinct by hash of the decoded case",
    "floor": {"quick": 30, "thorough": 300},
    "assumptions": ["interleavings sampled with deliberate window widening, not enumerated",
                    "deadlock verdicts are state-based (quiescence detector), watchdog expiry is inconclusive"],
}
LEVEL_TEXT["C02"] = {
    "text": "Generated ping-pong programs over every blocking facility built on the suspend/resume path run on the real runtime with mandatory, generated perturbation plans that widen exactly the windows the property names; the oracle is the property's own second sentence: a state-based quiescence detector (all pools: active=pending=staged=0, suspended>0, activation counter unchanged over 6 samples, no external actor) while the harness knows the wake-up was issued, plus round-completion counts. Exploration, because schedules of the real scheduler can only be sampled.",
    "note": "Window widening is by sleeping/spinning at hook points; interleavings between hook points are reached only through OS preemption (CPU restriction helps). The set_thread_state helper path is confirmed hit in the non-trivial cases by hook counters.",
    "technique": "property-based testing (rapidcheck choice tape, fork-per-case runtime, hook perturbation plans, state-based deadlock oracle)",
}
