// C03 — sender adaptors deliver exactly one, correct completion signal.   Engine: E-rt.
// Generated pipeline terms; every edge is erased to unique_any_sender<P> so that the *real* adaptors
// are composed at run time; a reference interpreter computes the set of admissible completions.
#include "rt.hpp"
#include "quarantine.hpp"    // poisoning quarantine allocator: use-after-free oracle for the whole process

#include <pika/execution.hpp>
#include <pika/semaphore.hpp>

#include <exception>
#include <memory>
#include <set>
#include <tuple>
#include <vector>

using namespace vf;
using namespace vf::rt;

// ---- tracked payload ---------------------------------------------------------------------------
static std::atomic<long long> g_live{0}, g_constructed{0}, g_double_destroy{0};
struct P
{
    long long v = 0;
    int alive = 0x600D;
    P() { g_live.fetch_add(1); g_constructed.fetch_add(1); }
    explicit P(long long x) : v(x) { g_live.fetch_add(1); g_constructed.fetch_add(1); }
    P(P const& o) : v(o.v) { check(o); g_live.fetch_add(1); g_constructed.fetch_add(1); }
    P(P&& o) noexcept : v(o.v) { check(o); g_live.fetch_add(1); g_constructed.fetch_add(1); }
    P& operator=(P const& o) { check(o); v = o.v; return *this; }
    P& operator=(P&& o) noexcept { check(o); v = o.v; return *this; }
    ~P()
    {
        if (alive != 0x600D) g_double_destroy.fetch_add(1);
        alive = 0xDEAD;
        g_live.fetch_sub(1);
    }
    static void check(P const& o) { if (o.alive != 0x600D) g_double_destroy.fetch_add(1); }
};
struct TestErr
{
    int e;
};
using sender_t = ex::unique_any_sender<P>;

static long long fold(long long a, long long b) { return (a * 31 + b + 7) % 1000003; }
// the value a consumer produces from the error it received (error id e, consumer j); e = -3: a null exception_ptr, -2: foreign exception
static long long obs_code(long long e, int j) { return 500000 + e * 10 + j; }

// ---- terms ---------------------------------------------------------------------------------------
enum Node
{
    N_JUST, N_TRANSFER_JUST, N_SCHEDULE_THEN, N_LEAF,    // leaves
    N_THEN, N_THEN_THROW, N_LET_VALUE, N_LET_ERROR, N_CONTINUES_ON, N_DROP_VALUE_THEN, N_DROP_OP_STATE, N_REQUIRE_STARTED, N_ENSURE_STARTED,
    N_SPLIT, N_SPLIT_TUPLE, N_UNPACK, N_BULK, N_ANY_SENDER,    // unary
    N_WHEN_ALL, N_WHEN_ALL_VECTOR,    // n-ary
    N_COUNT
};
static char const* const node_names[] = {"just", "transfer_just", "schedule|then", "leaf", "then", "then(throw)", "let_value", "let_error", "continues_on",
    "drop_value|then", "drop_operation_state", "require_started", "ensure_started", "split", "split_tuple", "unpack", "bulk", "any_sender", "when_all", "when_all_vector"};

struct Term
{
    int node = N_JUST;
    long long val = 0;       // leaf value / then increment / bulk n
    int channel = 0;         // N_LEAF: 0 value 1 error 2 stopped
    int timing = 0;          // N_LEAF: 0 inline, 1 later on pool, 2 later on OS thread
    int err = 0;             // error id for leaf error / then(throw)
    int k = 2;               // split consumers / bulk n
    bool obs = false;        // split / split_tuple: every consumer turns an error into a value that encodes what IT received (not only the first error is observed)
    std::vector<std::unique_ptr<Term>> kids;    // operands; let_value/let_error: kids[0] predecessor, kids[1] continuation term
};

struct GenCtx
{
    Tape& t;
    int budget;
    bool avoid_split_stopped;
    long long avoided = 0;
};

static bool may_stop(Term const& x);

static std::unique_ptr<Term> gen(GenCtx& g, int depth)
{
    auto tm = std::make_unique<Term>();
    bool leaf = depth <= 0 || g.budget <= 0 || g.t.chance(1, 4);
    --g.budget;
    if (leaf)
    {
        tm->node = g.t.weighted({3, 2, 2, 5});
        tm->val = 1 + static_cast<long long>(g.t.below(50));
        if (tm->node == N_LEAF)
        {
            tm->channel = g.t.weighted({4, 2, 2});
            tm->timing = g.t.weighted({3, 3, 2});
            tm->err = 1 + static_cast<int>(g.t.below(5));
        }
        return tm;
    }
    tm->node = N_THEN + g.t.weighted({4, 2, 3, 3, 3, 2, 2, 2, 3, 4, 2, 2, 2, 2, 4, 2});
    tm->val = 1 + static_cast<long long>(g.t.below(20));
    tm->err = 6 + static_cast<int>(g.t.below(5));
    tm->k = 1 + static_cast<int>(g.t.below(3));
    tm->obs = (tm->err % 2) == 0;    // (derived from an existing draw: older replay tapes keep their meaning)
    int nk = 1;
    if (tm->node == N_LET_VALUE || tm->node == N_LET_ERROR) nk = 2;
    if (tm->node == N_WHEN_ALL) nk = 2 + static_cast<int>(g.t.below(2));
    if (tm->node == N_WHEN_ALL_VECTOR) nk = 1 + static_cast<int>(g.t.below(3));
    for (int i = 0; i < nk; ++i) tm->kids.push_back(gen(g, depth - 1));
    if (g.avoid_split_stopped && (tm->node == N_SPLIT || tm->node == N_SPLIT_TUPLE) && may_stop(*tm->kids[0]))
    {
        tm->node = N_ENSURE_STARTED;    // known finding excluded by construction
        ++g.avoided;
    }
    return tm;
}

static void describe_term(Term const& x, std::ostream& os)
{
    os << node_names[x.node];
    switch (x.node)
    {
    case N_JUST: case N_TRANSFER_JUST: case N_SCHEDULE_THEN: os << "(" << x.val << ")"; return;
    case N_LEAF:
        os << "(" << (x.channel == 0 ? "value " + std::to_string(x.val) : x.channel == 1 ? "error#" + std::to_string(x.err) : std::string("stopped"))
           << (x.timing == 0 ? ",inline" : x.timing == 1 ? ",on_pool" : ",on_os_thread") << ")";
        return;
    default: break;
    }
    os << "[";
    if (x.node == N_THEN) os << "+" << x.val << " ";
    if (x.node == N_THEN_THROW) os << "throw#" << x.err << " ";
    if (x.node == N_SPLIT) os << "consumers=" << x.k << " ";
    if ((x.node == N_SPLIT || x.node == N_SPLIT_TUPLE) && x.obs) os << "each_consumer_observes_errors ";
    if (x.node == N_DROP_OP_STATE && x.obs) os << "over_unerased_split ";
    if (x.node == N_BULK) os << "n=" << x.k * 3 << " ";
    for (std::size_t i = 0; i < x.kids.size(); ++i)
    {
        if (i) os << ", ";
        describe_term(*x.kids[i], os);
    }
    os << "]";
}

// ---- reference interpreter: set of admissible completions -----------------------------------------
struct Res
{
    int kind;         // 0 value 1 error 2 stopped
    long long v;      // value or error id
    bool operator<(Res const& o) const { return std::tie(kind, v) < std::tie(o.kind, o.v); }
};
using ResSet = std::set<Res>;

static ResSet eval(Term const& x, long long off);

static bool may_stop(Term const& x)
{
    ResSet r = eval(x, 0);
    for (auto const& y : r) if (y.kind == 2) return true;
    return false;
}

static ResSet map_values(ResSet const& in, std::function<ResSet(long long)> f)
{
    ResSet out;
    for (auto const& r : in)
    {
        if (r.kind != 0) out.insert(r);
        else { ResSet s = f(r.v); out.insert(s.begin(), s.end()); }
    }
    return out;
}

static ResSet eval(Term const& x, long long off)
{
    auto one = [](int k, long long v) { return ResSet{Res{k, v}}; };
    switch (x.node)
    {
    case N_JUST: case N_TRANSFER_JUST: case N_SCHEDULE_THEN: return one(0, x.val + off);
    case N_LEAF: return x.channel == 0 ? one(0, x.val + off) : x.channel == 1 ? one(1, x.err) : one(2, 0);
    case N_THEN: return map_values(eval(*x.kids[0], off), [&](long long v) { return ResSet{Res{0, v + x.val}}; });
    case N_THEN_THROW: return map_values(eval(*x.kids[0], off), [&](long long) { return ResSet{Res{1, x.err}}; });
    case N_LET_VALUE: return map_values(eval(*x.kids[0], off), [&](long long v) { return eval(*x.kids[1], v % 1000); });
    case N_LET_ERROR:
    {
        ResSet out;
        for (auto const& r : eval(*x.kids[0], off))
        {
            if (r.kind != 1) out.insert(r);
            else { ResSet s = eval(*x.kids[1], r.v); out.insert(s.begin(), s.end()); }
        }
        return out;
    }
    case N_CONTINUES_ON: case N_DROP_OP_STATE: case N_REQUIRE_STARTED: case N_ENSURE_STARTED: case N_ANY_SENDER: return eval(*x.kids[0], off);
    case N_DROP_VALUE_THEN: return map_values(eval(*x.kids[0], off), [&](long long) { return ResSet{Res{0, x.val}}; });
    case N_SPLIT:
    {
        ResSet out;
        for (auto const& r : eval(*x.kids[0], off))
        {
            if (r.kind == 0 || (r.kind == 1 && x.obs))
            {
                long long acc = 0;
                for (int j = 0; j < x.k; ++j) acc = fold(acc, r.kind == 0 ? r.v + j + 1 : obs_code(r.v, j));
                out.insert(Res{0, acc});
            }
            else out.insert(r);
        }
        return out;
    }
    case N_SPLIT_TUPLE:
    {
        ResSet out;
        for (auto const& r : eval(*x.kids[0], off))
        {
            if (r.kind == 0) out.insert(Res{0, fold(r.v + 1, r.v + 2)});
            else if (r.kind == 1 && x.obs) out.insert(Res{0, fold(obs_code(r.v, 0), obs_code(r.v, 1))});
            else out.insert(r);
        }
        return out;
    }
    case N_UNPACK: return map_values(eval(*x.kids[0], off), [&](long long v) { return ResSet{Res{0, fold(v + 3, v + 4)}}; });
    case N_BULK:
        return map_values(eval(*x.kids[0], off), [&](long long v) {
            long long n = x.k * 3, s = 0;
            for (long long i = 0; i < n; ++i) s += i + 1;
            return ResSet{Res{0, v + s}};
        });
    case N_WHEN_ALL: case N_WHEN_ALL_VECTOR:
    {
        // all children value => folded value; otherwise ANY non-value signal of a child may win
        std::vector<ResSet> rs;
        for (auto const& k : x.kids) rs.push_back(eval(*k, off));
        ResSet out;
        bool all_can_value = true;
        for (auto const& s : rs)
        {
            bool has_value = false;
            for (auto const& r : s) { if (r.kind == 0) has_value = true; else out.insert(r); }
            all_can_value &= has_value;
        }
        if (all_can_value)
        {
            // children are deterministic single-valued on the value channel for a given offset, except through nested when_all ambiguity:
            // fold every combination
            std::vector<long long> acc{0};
            for (auto const& s : rs)
            {
                std::vector<long long> next;
                for (auto const& r : s)
                    if (r.kind == 0)
                        for (long long a : acc) next.push_back(fold(a, r.v));
                acc.swap(next);
                if (acc.size() > 64) acc.resize(64);
            }
            for (long long a : acc) out.insert(Res{0, a});
        }
        return out;
    }
    }
    return {};
}

// ---- custom leaf sender ----------------------------------------------------------------------------
static std::atomic<int> g_os_threads{0};
static std::atomic<long long> g_leaf_ops_live{0}, g_leaf_touch_after_complete{0};

struct LeafSender
{
    using is_sender = void;
    template <template <typename...> class Tuple, template <typename...> class Variant>
    using value_types = Variant<Tuple<P>>;
    template <template <typename...> class Variant>
    using error_types = Variant<std::exception_ptr>;
    static constexpr bool sends_done = true;
    using completion_signatures = ex::completion_signatures<ex::set_value_t(P), ex::set_error_t(std::exception_ptr), ex::set_stopped_t()>;

    int channel, timing, err;
    long long val;

    template <typename R>
    struct op
    {
        std::decay_t<R> r;
        int channel, timing, err;
        long long val;
        int canary = 0x0B57;
        op(R&& rr, int c, int t, int e, long long v) : r(std::forward<R>(rr)), channel(c), timing(t), err(e), val(v) { g_leaf_ops_live.fetch_add(1); }
        op(op&&) = delete;
        ~op() { canary = 0; g_leaf_ops_live.fetch_sub(1); }
        void complete() noexcept
        {
            if (canary != 0x0B57) g_leaf_touch_after_complete.fetch_add(1);
            if (channel == 0) ex::set_value(std::move(r), P(val));
            else if (channel == 1) ex::set_error(std::move(r), std::make_exception_ptr(TestErr{err}));
            else ex::set_stopped(std::move(r));
            // the operation state may be destroyed by now: nothing is touched after the signal
        }
        void start() & noexcept
        {
            if (timing == 0) { complete(); return; }
            if (timing == 1)
            {
                ex::execute(ex::thread_pool_scheduler{}, [this] { pika::this_thread::yield(); complete(); });
                return;
            }
            G().external_actors.fetch_add(1);
            g_os_threads.fetch_add(1);
            std::thread([this] {
                struct timespec ts { 0, 20000 };
                nanosleep(&ts, nullptr);
                complete();
                g_os_threads.fetch_sub(1);
                G().external_actors.fetch_sub(1);
            }).detach();
        }
    };
    template <typename R>
    op<R> connect(R&& r) &&
    {
        return op<R>(std::forward<R>(r), channel, timing, err, val);
    }
    template <typename R>
    op<R> connect(R&& r) const&
    {
        return op<R>(std::forward<R>(r), channel, timing, err, val);
    }
};

// ---- building the real pipeline ---------------------------------------------------------------------
static sender_t build(Term const& x, long long off);
static long long err_id(std::exception_ptr const& ep)
{
    if (!ep) return -3;
    try { std::rethrow_exception(ep); }
    catch (TestErr const& t) { return t.e; }
    catch (...) { return -2; }
}

static sender_t build(Term const& x, long long off)
{
    ex::thread_pool_scheduler sched{};
    switch (x.node)
    {
    case N_JUST: return sender_t(ex::just(P(x.val + off)));
    case N_TRANSFER_JUST: return sender_t(ex::transfer_just(sched, P(x.val + off)));
    case N_SCHEDULE_THEN: { long long v = x.val + off; return sender_t(ex::then(ex::schedule(sched), [v] { return P(v); })); }
    case N_LEAF: return sender_t(LeafSender{x.channel, x.timing, x.err, x.val + off});
    case N_THEN: { long long d = x.val; return sender_t(ex::then(build(*x.kids[0], off), [d](P p) { return P(p.v + d); })); }
    case N_THEN_THROW: { int e = x.err; return sender_t(ex::then(build(*x.kids[0], off), [e](P) -> P { throw TestErr{e}; })); }
    case N_LET_VALUE:
    {
        Term const* sub = x.kids[1].get();
        return sender_t(ex::let_value(build(*x.kids[0], off), [sub](P& p) { return build(*sub, p.v % 1000); }));
    }
    case N_LET_ERROR:
    {
        Term const* sub = x.kids[1].get();
        return sender_t(ex::let_error(build(*x.kids[0], off), [sub](std::exception_ptr& ep) {
            long long e = -1;
            try { std::rethrow_exception(ep); }
            catch (TestErr const& t) { e = t.e; }
            catch (...) { e = -2; }
            return build(*sub, e);
        }));
    }
    case N_CONTINUES_ON: return sender_t(ex::continues_on(build(*x.kids[0], off), sched));
    case N_DROP_VALUE_THEN: { long long v = x.val; return sender_t(ex::then(ex::drop_value(build(*x.kids[0], off)), [v] { return P(v); })); }
    case N_DROP_OP_STATE:
        // variant (same denotation): the predecessor is an un-erased split, i.e. it sends `P const&` into its shared state, and this
        // pipeline holds the only reference to that state: whatever drop_operation_state forwards after releasing the predecessor's
        // operation state must not point into it
        if (x.obs) return sender_t(ex::then(ex::drop_operation_state(ex::split(build(*x.kids[0], off))), [](P const& p) { return P(p.v); }));
        return sender_t(ex::drop_operation_state(build(*x.kids[0], off)));
    case N_REQUIRE_STARTED: return sender_t(ex::require_started(build(*x.kids[0], off)));
    case N_ENSURE_STARTED: return sender_t(ex::ensure_started(build(*x.kids[0], off)));
    case N_ANY_SENDER: { ex::any_sender<P> a(ex::split(build(*x.kids[0], off))); ex::any_sender<P> b = a; return sender_t(std::move(b)); }
    case N_SPLIT:
    {
        auto s = ex::split(build(*x.kids[0], off));
        bool obs = x.obs;
        auto mk = [&](int j) -> sender_t {
            if (!obs) return sender_t(ex::then(s, [j](P const& p) { return P(p.v + j + 1); }));
            // (erased first: let_error does not compile over a predecessor whose error types contain exception_ptr twice)
            return sender_t(ex::let_error(sender_t(ex::then(s, [j](P const& p) { return P(p.v + j + 1); })), [j](std::exception_ptr& ep) { return ex::just(P(obs_code(err_id(ep), j))); }));
        };
        auto fold2 = [](P a, P b) { return P(fold(fold(0, a.v), b.v)); };
        if (x.k == 1) return sender_t(ex::then(mk(0), [](P a) { return P(fold(0, a.v)); }));
        if (x.k == 2) return sender_t(ex::then(ex::when_all(mk(0), mk(1)), fold2));
        return sender_t(ex::then(ex::when_all(mk(0), mk(1), mk(2)), [](P a, P b, P c) { return P(fold(fold(fold(0, a.v), b.v), c.v)); }));
    }
    case N_SPLIT_TUPLE:
    {
        auto tup = ex::then(build(*x.kids[0], off), [](P p) { return std::make_tuple(P(p.v + 1), P(p.v + 2)); });
        auto [a, b] = ex::split_tuple(std::move(tup));
        if (x.obs)
        {
            auto a2 = ex::let_error(sender_t(std::move(a)), [](std::exception_ptr& ep) { return ex::just(P(obs_code(err_id(ep), 0))); });
            auto b2 = ex::let_error(sender_t(std::move(b)), [](std::exception_ptr& ep) { return ex::just(P(obs_code(err_id(ep), 1))); });
            return sender_t(ex::then(ex::when_all(std::move(a2), std::move(b2)), [](P const& a, P const& b) { return P(fold(a.v, b.v)); }));
        }
        return sender_t(ex::then(ex::when_all(std::move(a), std::move(b)), [](P const& a, P const& b) { return P(fold(a.v, b.v)); }));
    }
    case N_UNPACK:
    {
        auto tup = ex::then(build(*x.kids[0], off), [](P p) { return std::make_tuple(P(p.v + 3), P(p.v + 4)); });
        return sender_t(ex::then(ex::unpack(std::move(tup)), [](P a, P b) { return P(fold(a.v, b.v)); }));
    }
    case N_BULK:
    {
        int n = x.k * 3;
        auto acc = std::make_shared<std::atomic<long long>>(0);
        return sender_t(ex::then(ex::bulk(build(*x.kids[0], off), n, [acc](int i, P&) { acc->fetch_add(i + 1); }), [acc](P p) { return P(p.v + acc->load()); }));
    }
    case N_WHEN_ALL:
    {
        if (x.kids.size() == 2)
            return sender_t(ex::then(ex::when_all(build(*x.kids[0], off), build(*x.kids[1], off)), [](P a, P b) { return P(fold(fold(0, a.v), b.v)); }));
        return sender_t(ex::then(ex::when_all(build(*x.kids[0], off), build(*x.kids[1], off), build(*x.kids[2], off)),
            [](P a, P b, P c) { return P(fold(fold(fold(0, a.v), b.v), c.v)); }));
    }
    case N_WHEN_ALL_VECTOR:
    {
        std::vector<sender_t> v;
        for (auto const& k : x.kids) v.push_back(build(*k, off));
        return sender_t(ex::then(ex::when_all_vector(std::move(v)), [](std::vector<P> ps) {
            long long a = 0;
            for (auto const& p : ps) a = fold(a, p.v);
            return P(a);
        }));
    }
    }
    return sender_t(ex::just(P(0)));
}

// ---- terminal receiver -------------------------------------------------------------------------------
struct Terminal
{
    std::atomic<int> signals{0};
    int kind = -1;
    long long v = 0;
    pika::counting_semaphore<> done{0};
};
struct TermRecv
{
    using is_receiver = void;
    Terminal* t;
    // start_detached-like mode: the completion signal destroys the operation state (which contains this receiver); nothing
    // of the operation may be touched by the adaptors afterwards
    std::shared_ptr<void>* self_destroy = nullptr;
    void set_value(P p) && noexcept
    {
        Terminal* tt = t;
        auto* sd = self_destroy;
        if (tt->signals.fetch_add(1) == 0) { tt->kind = 0; tt->v = p.v; }
        if (sd) sd->reset();
        tt->done.release();
    }
    void set_error(std::exception_ptr ep) && noexcept
    {
        long long e = -1;
        try { std::rethrow_exception(ep); }
        catch (TestErr const& te) { e = te.e; }
        catch (...) { e = -2; }
        Terminal* tt = t;
        auto* sd = self_destroy;
        if (tt->signals.fetch_add(1) == 0) { tt->kind = 1; tt->v = e; }
        if (sd) sd->reset();
        tt->done.release();
    }
    void set_stopped() && noexcept
    {
        Terminal* tt = t;
        auto* sd = self_destroy;
        if (tt->signals.fetch_add(1) == 0) { tt->kind = 2; tt->v = 0; }
        if (sd) sd->reset();
        tt->done.release();
    }
};

struct Case
{
    RtConfig cfg;
    std::unique_ptr<Term> term;
    int terminal = 0;    // 0 connect/start + own receiver, 1 sync_wait (only if the term cannot stop)
    bool self_destroy = false;    // terminal 0: the receiver destroys the (heap allocated) operation state inside its completion signal, like start_detached
    long long avoided = 0;
};

static int depth_of(Term const& x)
{
    int d = 0;
    for (auto const& k : x.kids) d = std::max(d, depth_of(*k));
    return d + 1;
}
static bool has_async_shared(Term const& x, bool under_shared)
{
    bool shared = under_shared || x.node == N_SPLIT || x.node == N_SPLIT_TUPLE || x.node == N_ENSURE_STARTED || x.node == N_WHEN_ALL || x.node == N_WHEN_ALL_VECTOR || x.node == N_ANY_SENDER;
    if (x.node == N_LEAF && x.timing != 0 && under_shared) return true;
    if ((x.node == N_TRANSFER_JUST || x.node == N_SCHEDULE_THEN) && under_shared) return true;
    for (auto const& k : x.kids) if (has_async_shared(*k, shared)) return true;
    return false;
}
static bool has_nonvalue_leaf(Term const& x)
{
    if (x.node == N_LEAF && x.channel != 0) return true;
    if (x.node == N_THEN_THROW) return true;
    for (auto const& k : x.kids) if (has_nonvalue_leaf(*k)) return true;
    return false;
}

static Case decode(tape_t const& tape)
{
    Tape t(tape);
    Case c;
    c.cfg = decode_config(t, {S_SL_AFTER_RUN, S_DO_YIELD, S_STS_BEFORE_CAS, S_CV_WAIT, S_SPLIT_ADD_CONT, S_SPLIT_PRED_DONE, S_SPLIT_RUN_CONTS, S_ES_ADD_CONT, S_ES_PRED_DONE,
                                 S_ES_RUN_CONT, S_ST_ADD_CONT, S_ST_PRED_DONE, S_ST_RUN_CONTS, S_WHEN_ALL_FINISH, S_WHEN_ALL_VECTOR_FINISH});
    c.cfg.workers = t.weighted({2, 4, 2, 3}) + 1;
    char const* e = std::getenv("VERIF_AVOID");
    GenCtx g{t, 14, e && std::strstr(e, "split_stopped") != nullptr};
    c.term = gen(g, 4);
    c.avoided = g.avoided;
    c.terminal = t.weighted({3, 1});
    if (c.terminal == 1 && may_stop(*c.term)) c.terminal = 0;    // sync_wait has no way to report stopped
    c.self_destroy = c.terminal == 0 && c.cfg.init_threads == 0;    // (derived from an existing draw: older replay tapes keep their meaning)
    return c;
}

static std::string describe(tape_t const& tape)
{
    Case c = decode(tape);
    std::ostringstream os, ts;
    describe_term(*c.term, ts);
    os << "{\"workers\": " << c.cfg.workers << ", \"policy\": \"" << policies[c.cfg.policy] << "\", \"terminal\": \"" << (c.terminal ? "sync_wait" : c.self_destroy ? "connect+start, op state destroyed inside the completion signal" : "connect+start") << "\", \"term\": "
       << jstr(ts.str()) << ", \"admissible\": [";
    bool first = true;
    for (auto const& r : eval(*c.term, 0))
    {
        os << (first ? "" : ", ") << "\"" << (r.kind == 0 ? "value " : r.kind == 1 ? "error#" : "stopped ") << r.v << "\"";
        first = false;
    }
    os << "], \"plan\": " << c.cfg.plan.size() << "}";
    return os.str();
}

static Outcome run(tape_t const& tape)
{
    Case c = decode(tape);
    restrict_cpus(c.cfg.cpus);
    install_hook(c.cfg);
    vf::quarantine::enabled().store(true);
    start_runtime(c.cfg);
    ResSet admissible = eval(*c.term, 0);
    Outcome out;
    Quiescence q;
    q.start();
    G().diagnose = [] { return std::string("the terminal receiver was never signalled (leaf operations alive: ") + std::to_string(g_leaf_ops_live.load()) + ")"; };
    int got_kind = -1;
    long long got_v = 0;
    int signals = 0;
    {
        Terminal term;
        if (c.terminal == 1)
        {
            // sync_wait from the main (non-pika) thread
            try
            {
                MainWaiting mw;    // (sync_wait's internal signal is not observable: only the generic detector applies)
                P p = pika::this_thread::experimental::sync_wait(build(*c.term, 0));
                got_kind = 0;
                got_v = p.v;
            }
            catch (TestErr const& te) { got_kind = 1; got_v = te.e; }
            catch (std::exception const& e) { out = Outcome::fail("foreign_exception", std::string("sync_wait threw a foreign exception: ") + e.what()); }
            signals = 1;
        }
        else
        {
            using OS = decltype(ex::connect(build(*c.term, 0), TermRecv{&term}));
            std::shared_ptr<void> holder;
            OS* raw = new OS(ex::connect(build(*c.term, 0), TermRecv{&term, c.self_destroy ? &holder : nullptr}));
            holder = std::shared_ptr<void>(raw, [](void* p) { delete static_cast<OS*>(p); });
            ex::start(*raw);
            G().awaited_signal_missing = [&] { return term.signals.load() == 0; };
            {
                MainWaitingForSignal mw;
                term.done.acquire();
            }
            G().awaited_signal_missing = nullptr;
            // grace: let everything settle, then look for a second signal
            {
                MainWaiting mw;
                while (g_os_threads.load() != 0) { struct timespec ts { 0, 50000 }; nanosleep(&ts, nullptr); }
                pika::wait();
            }
            signals = term.signals.load();
            got_kind = term.kind;
            got_v = term.v;
            holder.reset();
        }
    }
    {
        MainWaiting mw;
        while (g_os_threads.load() != 0) { struct timespec ts { 0, 50000 }; nanosleep(&ts, nullptr); }
        // the terminal receiver has its signal and every object of the pipeline is destroyed: whatever tasks the adaptors still
        // have in flight must finish.  A task that keeps running here is stuck inside an adaptor (it busy-waits, so the runtime
        // never looks quiescent): F23 showed up as exactly that, a worker spinning on the poisoned lock of a freed shared state
        G().diagnose = [] { return std::string("leaf operations alive: ") + std::to_string(g_leaf_ops_live.load()); };
        BoundedCall bc("pika::wait() after the terminal receiver was signalled and the operation state and all senders were destroyed (a task of the pipeline is still running: it is stuck inside a sender adaptor, e.g. spinning on a lock in memory that the completed pipeline has already freed)");
        pika::wait();
    }
    if (out.kind == Outcome::PASS)
    {
        static char const* const kn[] = {"value", "error", "stopped"};
        if (signals != 1) out = Outcome::fail("signal_count", "terminal receiver got " + std::to_string(signals) + " completion signals");
        else if (!admissible.count(Res{got_kind, got_v}))
        {
            std::string adm;
            for (auto const& r : admissible) adm += std::string(kn[r.kind]) + " " + std::to_string(r.v) + "; ";
            out = Outcome::fail("wrong_completion", std::string("completed with ") + kn[got_kind] + " " + std::to_string(got_v) + " but the composition denotes {" + adm + "}");
        }
        else if (g_double_destroy.load() != 0) out = Outcome::fail("payload_lifetime", "a payload object was used or destroyed after its destruction");
        else if (g_live.load() != 0) out = Outcome::fail("payload_leak", std::to_string(g_live.load()) + " payload objects still alive after the operation state and all senders were destroyed (of " + std::to_string(g_constructed.load()) + " constructed)");
        else if (g_leaf_ops_live.load() != 0) out = Outcome::fail("opstate_leak", std::to_string(g_leaf_ops_live.load()) + " leaf operation states were never destroyed");
        else if (g_leaf_touch_after_complete.load() != 0) out = Outcome::fail("opstate_use_after_destroy", "a leaf operation state was completed after its destruction");
        else
        {
            std::string qc = vf::quarantine::check();
            if (!qc.empty()) out = Outcome::fail("write_after_free", qc + (c.self_destroy ? " (the terminal receiver destroyed the operation state inside its completion signal, as start_detached does)" : ""));
        }
    }
    q.enter_stop_mode([] { return true; });
    stop_runtime();
    q.finish();
    add_monitor_counters(out);
    int depth = depth_of(*c.term);
    out.counters["depth"] = depth;
    out.counters["avoided"] = c.avoided;
    out.nontrivial = depth >= 3 && (has_nonvalue_leaf(*c.term) || has_async_shared(*c.term, false));
    out.tags.push_back(c.terminal ? "terminal:sync_wait" : c.self_destroy ? "terminal:receiver_destroys_op_state" : "terminal:receiver");
    out.tags.push_back(std::string("completion:") + (got_kind == 0 ? "value" : got_kind == 1 ? "error" : got_kind == 2 ? "stopped" : "none"));
    std::function<void(Term const&)> walk = [&](Term const& x) {
        out.tags.push_back(std::string("node:") + node_names[x.node]);
        for (auto const& k : x.kids) walk(*k);
    };
    walk(*c.term);
    std::sort(out.tags.begin(), out.tags.end());
    out.tags.erase(std::unique(out.tags.begin(), out.tags.end()), out.tags.end());
    return out;
}

int main(int argc, char** argv)
{
    Target T;
    T.property = "C03";
    T.engine = "E-rt";
    T.forked = true;
    T.tape_scale = 3;
    T.child_timeout_s = 60;
    T.describe = describe;
    T.run = run;
    T.signature = [](tape_t const& tape, Outcome const& o) {
        Case c = decode(tape);
        std::set<std::string> nodes;
        std::function<void(Term const&)> walk = [&](Term const& x) { nodes.insert(node_names[x.node]); for (auto const& k : x.kids) walk(*k); };
        walk(*c.term);
        bool split_stop = false;
        std::function<void(Term const&)> ws = [&](Term const& x) {
            if ((x.node == N_SPLIT || x.node == N_SPLIT_TUPLE) && may_stop(*x.kids[0])) split_stop = true;
            for (auto const& k : x.kids) ws(*k);
        };
        ws(*c.term);
        return std::string("{\"oracle\": ") + jstr(o.oracle) + ", \"split_of_stopped\": " + (split_stop ? "true" : "false") + "}";
    };
    return target_main(argc, argv, T);
}
