// C14 (history part) — stop_source / stop_token / stop_callback copy, move, assign, swap, destroy
// histories against a reference model.   Engine: E-seq (in-process, single thread).
#include "vt.hpp"

#include <pika/stop_token.hpp>

#include <functional>
#include <memory>
#include <optional>

using namespace vf;

enum Cmd
{
    C_SRC_NEW, C_SRC_NOSTATE, C_SRC_COPY, C_SRC_MOVE, C_SRC_COPY_ASSIGN, C_SRC_MOVE_ASSIGN, C_SRC_SWAP, C_SRC_DESTROY,
    C_TOK_GET, C_TOK_COPY, C_TOK_MOVE, C_TOK_COPY_ASSIGN, C_TOK_MOVE_ASSIGN, C_TOK_SWAP, C_TOK_DESTROY, C_TOK_DEFAULT,
    C_REQUEST, C_CB_REGISTER, C_CB_DESTROY, C_COUNT
};
static char const* const cmd_names[] = {"src_new", "src_nostate", "src_copy", "src_move", "src_copy_assign", "src_move_assign", "src_swap", "src_destroy",
    "tok_get", "tok_copy", "tok_move", "tok_copy_assign", "tok_move_assign", "tok_swap", "tok_destroy", "tok_default",
    "request_stop", "cb_register", "cb_destroy"};

struct Step
{
    int cmd, a, b;
    int inner;    // for cb_register: what the callback body does: 0 nothing, 1 destroy itself, 2 destroy callback b2, 3 register another callback on the same token
    int b2;
};
static int const NS = 4, NT = 4, NC = 6;

struct Case
{
    std::vector<Step> steps;
    bool avoid_assign = false;
};

static Case decode(Tape& t)
{
    Case c;
    {
        char const* e = std::getenv("VERIF_AVOID");
        c.avoid_assign = e && std::strstr(e, "stop_source_assign");
    }
    int n = 1 + static_cast<int>(t.below(24));
    for (int i = 0; i < n; ++i)
    {
        Step s;
        s.cmd = t.weighted({4, 1, 2, 2, 3, 3, 1, 2, 4, 2, 1, 2, 1, 1, 2, 1, 4, 4, 2});
        s.a = static_cast<int>(t.below(4));
        s.b = static_cast<int>(t.below(4));
        s.inner = t.weighted({5, 1, 1, 1});
        s.b2 = static_cast<int>(t.below(NC));
        if (s.cmd == C_CB_REGISTER || s.cmd == C_CB_DESTROY) s.a = static_cast<int>(t.below(NC));
        if (s.cmd == C_SRC_MOVE_ASSIGN && s.a == s.b) s.cmd = C_SRC_COPY_ASSIGN;    // self-move-assignment is not a supported operation
        if (s.cmd == C_TOK_MOVE_ASSIGN && s.a == s.b) s.cmd = C_TOK_COPY_ASSIGN;
        if ((s.cmd == C_SRC_MOVE || s.cmd == C_SRC_COPY) && s.a == s.b) s.cmd = C_SRC_NEW;    // constructing an object from itself is not expressible
        if ((s.cmd == C_TOK_MOVE || s.cmd == C_TOK_COPY) && s.a == s.b) s.cmd = C_TOK_DEFAULT;
        if (c.avoid_assign && (s.cmd == C_SRC_COPY_ASSIGN || s.cmd == C_SRC_MOVE_ASSIGN)) s.cmd = C_SRC_COPY;
        if (c.avoid_assign && s.cmd == C_SRC_COPY && s.a == s.b) s.cmd = C_SRC_NEW;
        c.steps.push_back(s);
    }
    return c;
}

static std::string describe(tape_t const& tape)
{
    Tape t(tape);
    Case c = decode(t);
    std::ostringstream os;
    os << "{\"history\": [";
    for (std::size_t i = 0; i < c.steps.size(); ++i)
    {
        auto const& s = c.steps[i];
        os << (i ? ", " : "") << "\"" << cmd_names[s.cmd] << " " << s.a;
        if (s.cmd == C_SRC_COPY || s.cmd == C_SRC_MOVE || s.cmd == C_SRC_COPY_ASSIGN || s.cmd == C_SRC_MOVE_ASSIGN || s.cmd == C_SRC_SWAP || s.cmd == C_TOK_GET ||
            s.cmd == C_TOK_COPY || s.cmd == C_TOK_MOVE || s.cmd == C_TOK_COPY_ASSIGN || s.cmd == C_TOK_MOVE_ASSIGN || s.cmd == C_TOK_SWAP || s.cmd == C_CB_REGISTER)
            os << "<-" << s.b;
        if (s.cmd == C_CB_REGISTER && s.inner) os << " body:" << (s.inner == 1 ? "destroy_self" : s.inner == 2 ? "destroy_cb" + std::to_string(s.b2) : "register_cb" + std::to_string(s.b2));
        os << "\"";
    }
    os << "]}";
    return os.str();
}

// ------------------------------------------------------------------------------------------------
struct MState
{
    int sources = 0;
    bool requested = false;
};
struct World;
struct CbBody
{
    World* w;
    int k;
    void operator()() const;
};
using callback_t = pika::stop_callback<CbBody>;

struct World
{
    // real objects
    std::optional<pika::stop_source> src[NS];
    std::optional<pika::stop_token> tok[NT];
    std::unique_ptr<callback_t> cb[NC];
    // model: state id per handle (-1: no state), absent handle = not constructed
    int msrc[NS], mtok[NT];
    bool src_alive[NS] = {}, tok_alive[NT] = {};
    std::vector<MState> states;
    // callbacks
    int cb_state[NC];        // model: state the callback is registered on (-1: not registered / never will run)
    bool cb_alive[NC] = {};
    bool cb_in_dtor[NC] = {};
    int cb_expected[NC] = {};
    int cb_runs[NC] = {};
    int cb_inner[NC] = {}, cb_b2[NC] = {};
    int cb_tok_for_inner[NC] = {};
    std::string fail;
    std::string fail_oracle;
    long long assign_over_other_state = 0;

    World()
    {
        for (int& x : msrc) x = -1;
        for (int& x : mtok) x = -1;
        for (int& x : cb_state) x = -1;
    }
    void set_fail(char const* o, std::string m)
    {
        if (fail.empty()) { fail_oracle = o; fail = std::move(m); }
    }
    void drop_source_model(int i)
    {
        if (src_alive[i] && msrc[i] >= 0) --states[static_cast<std::size_t>(msrc[i])].sources;
    }
    bool m_possible(int st) const { return st >= 0 && (states[static_cast<std::size_t>(st)].requested || states[static_cast<std::size_t>(st)].sources > 0); }
    bool m_requested(int st) const { return st >= 0 && states[static_cast<std::size_t>(st)].requested; }

    void destroy_cb(int k)
    {
        if (!cb_alive[k] || cb_in_dtor[k]) return;
        cb_in_dtor[k] = true;
        cb_alive[k] = false;
        cb_state[k] = -1;
        cb[k].reset();
        cb_in_dtor[k] = false;
    }
    void register_cb(int k, int tokslot, int inner, int b2)
    {
        if (cb_alive[k] || cb_in_dtor[k] || !tok_alive[tokslot]) return;
        int st = mtok[tokslot];
        cb_inner[k] = inner;
        cb_b2[k] = b2;
        cb_tok_for_inner[k] = tokslot;
        cb_alive[k] = true;
        cb_runs[k] = 0;
        if (m_requested(st)) { cb_expected[k] = 1; cb_state[k] = -1; cb_inner[k] = 0; }    // runs immediately in the constructor (no self-referential body action there)
        else if (m_possible(st)) { cb_expected[k] = 0; cb_state[k] = st; }
        else { cb_expected[k] = 0; cb_state[k] = -1; }
        cb[k] = std::make_unique<callback_t>(*tok[tokslot], CbBody{this, k});
        if (cb_alive[k] && cb_runs[k] != cb_expected[k])
            set_fail("callback_count", "callback " + std::to_string(k) + " ran " + std::to_string(cb_runs[k]) + " times right after registration, expected " + std::to_string(cb_expected[k]));
    }
    void check_all(int step)
    {
        for (int i = 0; i < NS; ++i)
        {
            if (!src_alive[i]) continue;
            bool p = src[i]->stop_possible(), r = src[i]->stop_requested();
            if (p != (msrc[i] >= 0)) set_fail("source_stop_possible", "after step " + std::to_string(step) + ": source " + std::to_string(i) + " stop_possible()=" + std::to_string(p) + ", model " + std::to_string(msrc[i] >= 0));
            if (r != m_requested(msrc[i])) set_fail("stop_requested", "after step " + std::to_string(step) + ": source " + std::to_string(i) + " stop_requested()=" + std::to_string(r));
        }
        for (int j = 0; j < NT; ++j)
        {
            if (!tok_alive[j]) continue;
            bool p = tok[j]->stop_possible(), r = tok[j]->stop_requested();
            if (p != m_possible(mtok[j]))
                set_fail("token_stop_possible", "after step " + std::to_string(step) + ": token " + std::to_string(j) + " stop_possible()=" + std::to_string(p) + " but the model says " +
                        std::to_string(m_possible(mtok[j])) + " (state has " + (mtok[j] >= 0 ? std::to_string(states[static_cast<std::size_t>(mtok[j])].sources) : std::string("no")) + " live sources, requested=" +
                        std::to_string(m_requested(mtok[j])) + ")");
            if (r != m_requested(mtok[j])) set_fail("stop_requested", "after step " + std::to_string(step) + ": token " + std::to_string(j) + " stop_requested()=" + std::to_string(r));
        }
        for (int k = 0; k < NC; ++k)
            if (cb_alive[k] && cb_runs[k] != cb_expected[k])
                set_fail("callback_count", "after step " + std::to_string(step) + ": callback " + std::to_string(k) + " ran " + std::to_string(cb_runs[k]) + " times, expected " + std::to_string(cb_expected[k]));
    }
};

void CbBody::operator()() const
{
    World& W = *w;
    ++W.cb_runs[k];
    if (!W.cb_alive[k] && !W.cb_in_dtor[k]) { W.set_fail("callback_after_destructor", "callback " + std::to_string(k) + " ran after its stop_callback was destroyed"); return; }
    int inner = W.cb_inner[k], b2 = W.cb_b2[k], tk = W.cb_tok_for_inner[k];
    switch (inner)
    {
    case 1: W.destroy_cb(k); break;    // deregister itself from inside the callback
    case 2: if (b2 != k) W.destroy_cb(b2); break;
    case 3: if (b2 != k) W.register_cb(b2, tk, 0, 0); break;
    default: break;
    }
}

static Outcome run_history(Case const& c);

// The history runs on one harness-owned logical thread: a destructor that waits for something that
// can never happen (it spins through the agent) is then detected exactly as "no logical thread can
// make progress", instead of hitting a wall-clock watchdog.
static Outcome run(tape_t const& tape)
{
    Tape t(tape);
    Case c = decode(t);
    Tape empty_schedule(tape);
    empty_schedule.pos = tape.size();
    vt::Sched s;
    Outcome out;
    s.add([&] { out = run_history(c); });
    s.diagnose = [] { return std::string("single-threaded history: the current operation waits for an event nobody can produce"); };
    s.run(empty_schedule);
    return out;
}

static Outcome run_history(Case const& c)
{
    auto Wp = std::make_unique<World>();
    World& W = *Wp;
    int step = 0;
    bool saw_assign_over = false, saw_cb_inner = false;
    for (Step const& s : c.steps)
    {
        ++step;
        int a = s.a, b = s.b;
        switch (s.cmd)
        {
        case C_SRC_NEW:
            W.drop_source_model(a);
            W.src[a].reset();
            W.src[a].emplace();
            W.states.push_back(MState{1, false});
            W.msrc[a] = static_cast<int>(W.states.size()) - 1;
            W.src_alive[a] = true;
            break;
        case C_SRC_NOSTATE:
            W.drop_source_model(a);
            W.src[a].reset();
            W.src[a].emplace(pika::nostopstate);
            W.msrc[a] = -1;
            W.src_alive[a] = true;
            break;
        case C_SRC_COPY:
            if (!W.src_alive[b]) break;
            W.drop_source_model(a);
            W.src[a].reset();
            W.src[a].emplace(*W.src[b]);
            W.msrc[a] = W.msrc[b];
            if (W.msrc[a] >= 0) ++W.states[static_cast<std::size_t>(W.msrc[a])].sources;
            W.src_alive[a] = true;
            break;
        case C_SRC_MOVE:
            if (!W.src_alive[b]) break;
            W.drop_source_model(a);
            W.src[a].reset();
            W.src[a].emplace(std::move(*W.src[b]));
            W.msrc[a] = W.msrc[b];
            W.msrc[b] = -1;    // moved-from source has no state
            W.src_alive[a] = true;
            break;
        case C_SRC_COPY_ASSIGN:
            if (!W.src_alive[a] || !W.src_alive[b]) break;
            if (W.msrc[a] >= 0 && W.msrc[a] != W.msrc[b]) saw_assign_over = true;
            *W.src[a] = *W.src[b];
            if (a != b)
            {
                if (W.msrc[a] >= 0) --W.states[static_cast<std::size_t>(W.msrc[a])].sources;
                W.msrc[a] = W.msrc[b];
                if (W.msrc[a] >= 0) ++W.states[static_cast<std::size_t>(W.msrc[a])].sources;
            }
            break;
        case C_SRC_MOVE_ASSIGN:
            if (!W.src_alive[a] || !W.src_alive[b] || a == b) break;
            if (W.msrc[a] >= 0 && W.msrc[a] != W.msrc[b]) saw_assign_over = true;
            *W.src[a] = std::move(*W.src[b]);
            if (W.msrc[a] >= 0) --W.states[static_cast<std::size_t>(W.msrc[a])].sources;
            W.msrc[a] = W.msrc[b];
            W.msrc[b] = -1;
            break;
        case C_SRC_SWAP:
            if (!W.src_alive[a] || !W.src_alive[b]) break;
            W.src[a]->swap(*W.src[b]);
            std::swap(W.msrc[a], W.msrc[b]);
            break;
        case C_SRC_DESTROY:
            if (!W.src_alive[a]) break;
            W.drop_source_model(a);
            W.src[a].reset();
            W.src_alive[a] = false;
            W.msrc[a] = -1;
            break;
        case C_TOK_GET:
            if (!W.src_alive[b]) break;
            W.tok[a].reset();
            W.tok[a].emplace(W.src[b]->get_token());
            W.mtok[a] = W.msrc[b];
            W.tok_alive[a] = true;
            break;
        case C_TOK_DEFAULT:
            W.tok[a].reset();
            W.tok[a].emplace();
            W.mtok[a] = -1;
            W.tok_alive[a] = true;
            break;
        case C_TOK_COPY:
            if (!W.tok_alive[b]) break;
            W.tok[a].reset();
            W.tok[a].emplace(*W.tok[b]);
            W.mtok[a] = W.mtok[b];
            W.tok_alive[a] = true;
            break;
        case C_TOK_MOVE:
            if (!W.tok_alive[b]) break;
            W.tok[a].reset();
            W.tok[a].emplace(std::move(*W.tok[b]));
            W.mtok[a] = W.mtok[b];
            W.mtok[b] = -1;
            W.tok_alive[a] = true;
            break;
        case C_TOK_COPY_ASSIGN:
            if (!W.tok_alive[a] || !W.tok_alive[b]) break;
            *W.tok[a] = *W.tok[b];
            W.mtok[a] = W.mtok[b];
            break;
        case C_TOK_MOVE_ASSIGN:
            if (!W.tok_alive[a] || !W.tok_alive[b] || a == b) break;
            *W.tok[a] = std::move(*W.tok[b]);
            W.mtok[a] = W.mtok[b];
            W.mtok[b] = -1;
            break;
        case C_TOK_SWAP:
            if (!W.tok_alive[a] || !W.tok_alive[b]) break;
            W.tok[a]->swap(*W.tok[b]);
            std::swap(W.mtok[a], W.mtok[b]);
            break;
        case C_TOK_DESTROY:
            W.tok[a].reset();
            W.tok_alive[a] = false;
            W.mtok[a] = -1;
            break;
        case C_REQUEST:
        {
            if (!W.src_alive[a]) break;
            int st = W.msrc[a];
            bool expect = st >= 0 && !W.states[static_cast<std::size_t>(st)].requested;
            if (expect)
            {
                W.states[static_cast<std::size_t>(st)].requested = true;
                // every callback registered on that state runs exactly once now (unless destroyed by another callback first:
                // the model cannot know the order, so expectations are settled after the call)
            }
            std::vector<int> on_state;
            for (int k = 0; k < NC; ++k)
                if (W.cb_alive[k] && W.cb_state[k] == st && st >= 0) on_state.push_back(k);
            bool r = W.src[a]->request_stop();
            if (r != expect) W.set_fail("request_stop_result", "request_stop() returned " + std::to_string(r) + ", expected " + std::to_string(expect));
            if (expect)
                for (int k : on_state)
                {
                    if (W.cb_alive[k])
                    {
                        W.cb_expected[k] = 1;    // still alive: it must have run exactly once
                        W.cb_state[k] = -1;
                    }
                    // callbacks destroyed during the stop (by another callback or themselves) ran at most once: checked in the body
                }
            break;
        }
        case C_CB_REGISTER:
            if (s.inner) saw_cb_inner = true;
            W.register_cb(a, b, s.inner, s.b2);
            break;
        case C_CB_DESTROY: W.destroy_cb(a); break;
        }
        for (int k = 0; k < NC; ++k)
            if (W.cb_runs[k] > 1) W.set_fail("callback_count", "callback " + std::to_string(k) + " ran " + std::to_string(W.cb_runs[k]) + " times");
        W.check_all(step);
        if (!W.fail.empty()) break;
    }
    // tear down in a fixed order (callbacks first: they reference tokens' states only through their own refs)
    for (int k = 0; k < NC; ++k) W.destroy_cb(k);
    Outcome out;
    if (!W.fail.empty()) out = Outcome::fail(W.fail_oracle, W.fail);
    out.nontrivial = saw_assign_over || saw_cb_inner;
    if (saw_assign_over) out.tags.push_back("has:assignment_over_other_state");
    if (saw_cb_inner) out.tags.push_back("has:callback_body_action");
    out.counters["steps"] = step;
    return out;
}

int main(int argc, char** argv)
{
    Target T;
    T.property = "C14";
    T.engine = "E-seq";
    T.forked = true;    // a crash (double free) must not take the generator down
    T.tape_scale = 2;
    T.child_timeout_s = 20;
    T.describe = describe;
    T.run = run;
    T.signature = [](tape_t const&, Outcome const& o) { return std::string("{\"oracle\": ") + jstr(o.oracle) + "}"; };
    return target_main(argc, argv, T);
}
