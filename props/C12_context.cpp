// C12 — a task's context survives suspension, migration and recycling.   Engine: E-rt.
#include "rt.hpp"

#include <pika/execution.hpp>
#include <pika/latch.hpp>
#include <pika/semaphore.hpp>
#include <pika/threading_base/thread_helpers.hpp>

#include <mutex>
#include <set>

using namespace vf;
using namespace vf::rt;

// ---- register probe: loads distinct constants into the callee-saved registers, calls fn (which
// yields / suspends), and reports which registers came back different (bit mask) ----------------
extern "C" long vf_reg_probe(void (*fn)(void*), void* arg);
asm(R"(
    .text
    .globl vf_reg_probe
    .type vf_reg_probe, @function
vf_reg_probe:
    pushq %rbx
    pushq %rbp
    pushq %r12
    pushq %r13
    pushq %r14
    pushq %r15
    subq $8, %rsp
    movq %rdi, %rax
    movq %rsi, %rdi
    movabsq $0x1111111111111111, %rbx
    movabsq $0x2222222222222222, %rbp
    movabsq $0x3333333333333333, %r12
    movabsq $0x4444444444444444, %r13
    movabsq $0x5555555555555555, %r14
    movabsq $0x6666666666666666, %r15
    call *%rax
    xorl %eax, %eax
    movabsq $0x1111111111111111, %rcx
    cmpq %rcx, %rbx
    je 1f
    orl $1, %eax
1:  movabsq $0x2222222222222222, %rcx
    cmpq %rcx, %rbp
    je 2f
    orl $2, %eax
2:  movabsq $0x3333333333333333, %rcx
    cmpq %rcx, %r12
    je 3f
    orl $4, %eax
3:  movabsq $0x4444444444444444, %rcx
    cmpq %rcx, %r13
    je 4f
    orl $8, %eax
4:  movabsq $0x5555555555555555, %rcx
    cmpq %rcx, %r14
    je 5f
    orl $16, %eax
5:  movabsq $0x6666666666666666, %rcx
    cmpq %rcx, %r15
    je 6f
    orl $32, %eax
6:  addq $8, %rsp
    popq %r15
    popq %r14
    popq %r13
    popq %r12
    popq %rbp
    popq %rbx
    ret
    .size vf_reg_probe, .-vf_reg_probe
)");

static char const* const class_names[] = {"small", "medium", "large", "huge"};
static long const size_choices[4][3] = {{0x10000, 0x20000, 0x8000}, {0x20000, 0x40000, 0x30000}, {0x200000, 0x100000, 0x80000}, {0x2000000, 0x400000, 0x800000}};

enum Act { A_NONE, A_YIELD, A_SUSPEND, A_MIGRATE, A_REGPROBE_YIELD, A_REGPROBE_SUSPEND };
static char const* const act_names[] = {"-", "yield", "suspend", "migrate", "regprobe(yield)", "regprobe(suspend)"};

struct TaskSpec
{
    int cls = 0;
    int depth_permille = 300;    // fraction of the configured stack used by the recursion
    std::vector<int> acts;       // action at evenly spread depths
    int dirty = 0;               // what the task leaves behind: bit0 thread data, bit1 interruption disabled at exit, bit2 unconsumed self-interrupt
    int hint = -1, prio = 0;
};
struct Case
{
    RtConfig cfg;
    long sizes[4];
    bool guard = false;
    int waves = 1;
    std::vector<std::vector<TaskSpec>> wave;
};

static Case decode(tape_t const& tape)
{
    Tape t(tape);
    Case c;
    c.cfg = decode_config(t, {S_SL_AFTER_RUN, S_SL_AFTER_STORE, S_DO_YIELD, S_STS_BEFORE_SCHEDULE});
    for (int k = 0; k < 4; ++k) c.sizes[k] = size_choices[k][t.weighted({3, 1, 1})];
    c.guard = t.chance(1, 2);
    c.cfg.max_terminated = t.pick({1, 10, 100});    // recycle early
    c.waves = 1 + t.weighted({2, 3, 2});
    for (int w = 0; w < c.waves; ++w)
    {
        std::vector<TaskSpec> v;
        int n = 1 + static_cast<int>(t.below(12));
        for (int i = 0; i < n; ++i)
        {
            TaskSpec s;
            s.cls = t.weighted({4, 3, 3, 1});
            s.depth_permille = t.pick({100, 300, 600, 850});
            int na = t.weighted({1, 3, 3, 2});
            for (int k = 0; k < na; ++k) s.acts.push_back(1 + static_cast<int>(t.below(5)));
            s.dirty = static_cast<int>(t.below(8));
            s.hint = t.chance(1, 3) ? static_cast<int>(t.below(static_cast<std::uint32_t>(c.cfg.workers))) : -1;
            s.prio = t.weighted({6, 1, 1});
            v.push_back(std::move(s));
        }
        c.wave.push_back(std::move(v));
    }
    return c;
}

static std::string describe(tape_t const& tape)
{
    Case c = decode(tape);
    std::ostringstream os;
    os << "{\"config\": " << c.cfg.describe() << ", \"stack_sizes\": [" << c.sizes[0] << "," << c.sizes[1] << "," << c.sizes[2] << "," << c.sizes[3] << "], \"guard_pages\": " << (c.guard ? "true" : "false") << ", \"waves\": [";
    for (std::size_t w = 0; w < c.wave.size(); ++w)
    {
        os << (w ? ", " : "") << "[";
        for (std::size_t i = 0; i < c.wave[w].size(); ++i)
        {
            auto const& s = c.wave[w][i];
            os << (i ? ", " : "") << "\"" << class_names[s.cls] << " use" << s.depth_permille << "/1000 ";
            for (int a : s.acts) os << act_names[a] << " ";
            os << "dirty" << s.dirty << "\"";
        }
        os << "]";
    }
    os << "]}";
    return os.str();
}

// ------------------------------------------------------------------------------------------------
struct World
{
    Case const* c = nullptr;
    std::mutex m;
    std::map<std::uintptr_t, std::pair<std::uintptr_t, int>> live;    // lo -> (hi, task)
    pika::counting_semaphore<> side{0};
    std::atomic<long long> migrations{0}, resumed_deep{0}, tasks_done{0}, reg_probes{0};
};

struct Frame
{
    World* W;
    TaskSpec const* s;
    int task;
    int total_depth;
    std::uint64_t seed;
    pika::threads::detail::thread_id_type id0;
    std::size_t data0;
    mutable std::uintptr_t a0 = 0, a1 = 0;    // addresses of the canary arrays at levels 0 and 1 (frame size measurement)
};

static void yield_fn(void*) { pika::this_thread::yield(); }
static void suspend_fn(void* p)
{
    World* W = static_cast<World*>(p);
    ex::execute(ex::thread_pool_scheduler{}, [W] { pika::this_thread::yield(); W->side.release(1); });
    W->side.acquire();
}

static void check_identity(Frame const& f, char const* when)
{
    if (pika::threads::detail::get_self_id() != f.id0) fail_now("identity_changed", std::string("thread id differs ") + when);
    if (pika::this_thread::get_thread_data() != f.data0) fail_now("task_data_changed", std::string("task-local data differs ") + when);
}

static void do_action(Frame const& f, int act, int level)
{
    World& W = *f.W;
    std::size_t w0 = pika::get_worker_thread_num();
    double d0 = 1.25 * level + 0.5;
    long double ld0 = 3.0L * level + 0.125L;
    switch (act)
    {
    case A_YIELD: pika::this_thread::yield(); break;
    case A_SUSPEND: suspend_fn(&W); break;
    case A_MIGRATE:
        for (int k = 0; k < 8 && pika::get_worker_thread_num() == w0; ++k) pika::this_thread::yield();
        break;
    case A_REGPROBE_YIELD:
    case A_REGPROBE_SUSPEND:
    {
        long bad = vf_reg_probe(act == A_REGPROBE_YIELD ? &yield_fn : &suspend_fn, &W);
        W.reg_probes.fetch_add(1);
        if (bad) fail_now("callee_saved_register", "callee-saved registers changed across a " + std::string(act == A_REGPROBE_YIELD ? "yield" : "suspension") + " (mask rbx,rbp,r12..r15 = " + std::to_string(bad) + ")");
        break;
    }
    default: break;
    }
    if (pika::get_worker_thread_num() != w0) { W.migrations.fetch_add(1); if (level >= 3) W.resumed_deep.fetch_add(1); }
    volatile double d1 = d0;
    volatile long double ld1 = ld0;
    if (d1 != 1.25 * level + 0.5 || ld1 != 3.0L * level + 0.125L) fail_now("fp_value", "floating point locals changed across a yield");
    check_identity(f, "after a yield/suspension");
}

// recursion with a canary frame at every level
__attribute__((noinline)) static void descend(Frame const& f, int level)
{
    constexpr int N = 48;    // 384 bytes of canary per frame
    volatile std::uint64_t canary[N];
    for (int j = 0; j < N; ++j) canary[j] = f.seed * 1000003ull + static_cast<std::uint64_t>(level) * 131ull + static_cast<std::uint64_t>(j);
    if (level == 0) f.a0 = reinterpret_cast<std::uintptr_t>(&canary[0]);
    if (level == 1) f.a1 = reinterpret_cast<std::uintptr_t>(&canary[0]);
    // actions are spread over the depth
    int na = static_cast<int>(f.s->acts.size());
    for (int k = 0; k < na; ++k)
        if (level == (f.total_depth * (k + 1)) / (na + 1)) do_action(f, f.s->acts[static_cast<std::size_t>(k)], level);
    if (level < f.total_depth) descend(f, level + 1);
    for (int j = 0; j < N; ++j)
        if (canary[j] != f.seed * 1000003ull + static_cast<std::uint64_t>(level) * 131ull + static_cast<std::uint64_t>(j))
            fail_now("stack_corrupted", "canary at recursion level " + std::to_string(level) + " of task " + std::to_string(f.task) + " (" + class_names[f.s->cls] + " stack) was overwritten while the task was suspended/yielded deeper down");
}

static void task_body(World& W, int wave, int idx)
{
    TaskSpec const& s = W.c->wave[static_cast<std::size_t>(wave)][static_cast<std::size_t>(idx)];
    int task = wave * 100 + idx;
    // ---- clean start (the thread object and stack may be recycled from an earlier, dirty task)
    if (pika::this_thread::get_thread_data() != 0) fail_now("recycled_task_data", "task " + std::to_string(task) + " starts with task-local data " + std::to_string(pika::this_thread::get_thread_data()) + " inherited from an earlier task");
    if (!pika::this_thread::interruption_enabled()) fail_now("recycled_interruption_disabled", "task starts with interruption disabled");
    if (pika::this_thread::interruption_requested()) fail_now("recycled_interruption_request", "task starts with an inherited interruption request");
    // ---- stack of the configured size, disjoint from every other live task
    long configured = W.c->sizes[s.cls];
    std::ptrdiff_t reported = pika::this_thread::get_stack_size();
    if (reported != configured)
        fail_now("stack_size_class", "task of class " + std::string(class_names[s.cls]) + " runs on a stack of " + std::to_string(reported) + " bytes, configured " + std::to_string(configured));
    volatile char top_marker = 0;
    std::uintptr_t hi = reinterpret_cast<std::uintptr_t>(&top_marker);
    // the frames above us (trampoline etc.) are small: the usable range is [hi - configured + slack, hi]
    std::uintptr_t lo = hi - static_cast<std::uintptr_t>(configured) + 8192;
    {
        std::lock_guard<std::mutex> l(W.m);
        for (auto const& kv : W.live)
            if (!(kv.second.first <= lo || hi <= kv.first))
                fail_now("stacks_overlap", "stack range of task " + std::to_string(task) + " overlaps the stack of live task " + std::to_string(kv.second.second));
        W.live[lo] = {hi, task};
    }
    Frame f;
    f.W = &W;
    f.s = &s;
    f.task = task;
    f.seed = static_cast<std::uint64_t>(task) + 17;
    f.id0 = pika::threads::detail::get_self_id();
    pika::this_thread::set_thread_data(static_cast<std::size_t>(task) + 1000);
    f.data0 = static_cast<std::size_t>(task) + 1000;
    // measure the real frame size of one recursion level first (two levels, no actions)
    {
        TaskSpec probe = s;
        probe.acts.clear();
        Frame pf = f;
        pf.s = &probe;
        pf.total_depth = 1;
        descend(pf, 0);
        f.a0 = pf.a0;
        f.a1 = pf.a1;
    }
    long frame = static_cast<long>(f.a0 > f.a1 ? f.a0 - f.a1 : 1024);
    if (frame < 384 || frame > 4096) frame = 1024;
    long usable = configured - 16384;
    f.total_depth = static_cast<int>(std::max<long>(2, (usable * s.depth_permille / 1000) / frame));
    descend(f, 0);
    check_identity(f, "at the end");
    {
        std::lock_guard<std::mutex> l(W.m);
        W.live.erase(lo);
    }
    // ---- leave dirt behind for whoever reuses this thread object
    if (!(s.dirty & 1)) pika::this_thread::set_thread_data(0);
    static thread_local int dummy;
    (void) dummy;
    if (s.dirty & 4)
    {
        // a request nobody consumes: interrupt myself with interruption enabled and never pass an interruption point
        pika::threads::detail::get_thread_id_data(pika::threads::detail::get_self_id())->interrupt(true);
    }
    W.tasks_done.fetch_add(1);
    if (s.dirty & 2)
    {
        // end the task while a disable_interruption scope is formally still open
        auto* keep = new pika::this_thread::disable_interruption();
        (void) keep;
    }
}

static Outcome run(tape_t const& tape)
{
    Case c = decode(tape);
    restrict_cpus(c.cfg.cpus);
    install_hook(c.cfg);
    RtConfig cfg = c.cfg;
    static char const* const keys[] = {"small_size", "medium_size", "large_size", "huge_size"};
    for (int k = 0; k < 4; ++k)
    {
        char buf[64];
        std::snprintf(buf, sizeof buf, "pika.stacks.%s=0x%lx", keys[k], c.sizes[k]);
        cfg.extra_ini.push_back(buf);
    }
    cfg.extra_ini.push_back(std::string("pika.stacks.use_guard_pages=") + (c.guard ? "1" : "0"));
    start_runtime(cfg);
    World W;
    W.c = &c;
    Quiescence q;
    q.start();
    long long total = 0;
    Outcome out;
    for (int w = 0; w < c.waves && out.kind == Outcome::PASS; ++w)
    {
        for (std::size_t i = 0; i < c.wave[static_cast<std::size_t>(w)].size(); ++i)
        {
            TaskSpec const& s = c.wave[static_cast<std::size_t>(w)][i];
            using S = pika::execution::thread_stacksize;
            using P = pika::execution::thread_priority;
            static S const sm[] = {S::small_, S::medium, S::large, S::huge};
            auto sc = ex::with_stacksize(ex::thread_pool_scheduler{}, sm[s.cls]);
            sc = ex::with_priority(sc, s.prio == 0 ? P::normal : s.prio == 1 ? P::high : P::low);
            if (s.hint >= 0) sc = ex::with_hint(sc, pika::execution::thread_schedule_hint(static_cast<std::int16_t>(s.hint)));
            int wi = w, ii = static_cast<int>(i);
            ex::execute(sc, [&W, wi, ii] { task_body(W, wi, ii); });
            ++total;
        }
        {
            MainWaiting mw;
            pika::wait();
        }
        if (W.tasks_done.load() != total) out = Outcome::fail("tasks_incomplete", std::to_string(W.tasks_done.load()) + " of " + std::to_string(total) + " tasks finished");
    }
    q.enter_stop_mode([] { return true; });
    stop_runtime();
    q.finish();
    add_monitor_counters(out);
    out.counters["tasks"] = total;
    out.counters["resumed_on_other_worker_at_depth>=3"] = W.resumed_deep.load();
    out.counters["register_probes"] = W.reg_probes.load();
    bool dirty_prev = false;
    for (int w = 0; w + 1 < c.waves; ++w) for (auto const& s : c.wave[static_cast<std::size_t>(w)]) dirty_prev |= s.dirty != 0;
    out.nontrivial = W.resumed_deep.load() > 0 && G().rebinds.load() > 0 && dirty_prev;
    if (W.resumed_deep.load()) out.tags.push_back("saw:resumed_on_other_worker_deep");
    if (G().rebinds.load()) out.tags.push_back("saw:thread_object_rebind");
    if (dirty_prev) out.tags.push_back("has:dirty_predecessor_wave");
    if (c.guard) out.tags.push_back("guard_pages:on");
    return out;
}

int main(int argc, char** argv)
{
    Target T;
    T.property = "C12";
    T.engine = "E-rt";
    T.forked = true;
    T.tape_scale = 4;
    T.child_timeout_s = 60;
    T.describe = describe;
    T.run = run;
    T.signature = [](tape_t const&, Outcome const& o) { return std::string("{\"oracle\": ") + jstr(o.oracle) + "}"; };
    return target_main(argc, argv, T);
}
