// C04 (real threads) — async_rw_mutex with the accesses started, held and released by plain OS threads that really run
// at the same time.   Engine: E-stress (the schedule is not owned by the harness).
// The E-vt target interleaves the hand-off at hook granularity (sites 110-112); windows inside one atomic operation of the
// source and weak-ordering effects are only reachable by really running the threads.  Each generated case = request
// sequence over {read, readwrite} (issued in order by the main thread, as the mutex requires) x which of 2..4 OS threads
// starts each request (or drops it unstarted) x hold times x start skews, repeated for hundreds..thousands of rounds on a
// fresh mutex with the skews swept.
// Oracles: occupancy counters (a read-write access is alone; reads only share with reads of their own group), request
// order between groups (at grant time every started access of every earlier group has been released completely; the
// bookkeeping is done BEFORE the wrapper is destroyed because that destruction grants the next group synchronously), the
// value seen equals the number of earlier started read-write accesses, every started request is granted exactly once and
// within 5 s of all earlier ones being released (lost grant otherwise).
#include "core.hpp"

#include <pika/execution.hpp>
#include <pika/execution/async_rw_mutex.hpp>

#include <atomic>
#include <chrono>
#include <memory>
#include <mutex>
#include <optional>
#include <thread>
#include <vector>

using namespace vf;
namespace ex = pika::execution::experimental;

using mutex_int_t = ex::async_rw_mutex<int>;
using mutex_void_t = ex::async_rw_mutex<void>;    // a separate (duplicated) specialisation: the mutex guards an external resource

struct Req
{
    bool write = false;
    int thread = 0;
    bool drop = false;
    int hold = 0;
    bool copy_wrapper = false;
};
struct Case
{
    int nth = 2;
    std::vector<Req> reqs;
    int rounds = 300;
    int span = 64;
    std::vector<int> skew0, step;
    bool void_mutex = false;
};

static Case decode(tape_t const& tape)
{
    Tape t(tape);
    Case c;
    c.nth = 2 + static_cast<int>(t.below(3));
    int n = 2 + static_cast<int>(t.below(7));
    for (int i = 0; i < n; ++i)
    {
        Req r;
        r.write = t.chance(2, 5);
        r.thread = static_cast<int>(t.below(static_cast<std::uint32_t>(c.nth)));
        r.drop = t.chance(1, 8);
        r.hold = t.pick({0, 0, 10, 100, 1000});
        r.copy_wrapper = !r.write && t.chance(1, 3);
        c.reqs.push_back(r);
    }
    c.rounds = t.pick({300, 1000, 3000});
    c.span = t.pick({64, 8, 512, 4096});
    for (int i = 0; i < c.nth; ++i)
    {
        c.skew0.push_back(static_cast<int>(t.below(static_cast<std::uint32_t>(c.span))));
        c.step.push_back(t.pick({1, 0, 3, 7}));
    }
    c.void_mutex = t.chance(1, 3);
    return c;
}

static std::string describe(tape_t const& tape)
{
    Case c = decode(tape);
    std::ostringstream os;
    os << "{\"mutex\": \"" << (c.void_mutex ? "async_rw_mutex<void>" : "async_rw_mutex<int>") << "\", \"os_threads\": " << c.nth << ", \"requests\": [";
    for (std::size_t i = 0; i < c.reqs.size(); ++i)
    {
        auto const& r = c.reqs[i];
        os << (i ? ", " : "") << "\"" << (r.write ? "W" : "R") << " on T" << r.thread << (r.drop ? " drop_unstarted" : " start") << " hold" << r.hold << (r.copy_wrapper ? " copy_wrapper" : "") << "\"";
    }
    os << "], \"rounds\": " << c.rounds << ", \"skew_span\": " << c.span << "}";
    return os.str();
}

struct Shared
{
    std::atomic<int> fail_set{0};
    std::string oracle, msg;
    std::mutex fm;
    void fail(char const* o, std::string m)
    {
        std::lock_guard<std::mutex> l(fm);
        if (fail_set.load()) return;
        oracle = o;
        msg = std::move(m);
        fail_set.store(1);
    }
};

struct Round
{
    Case const* c;
    Shared* s;
    int round = 0;
    std::vector<int> group, expected_value, members;     // members[g]: started accesses of group g
    std::vector<std::atomic<int>> grants;                 // per request
    std::vector<std::atomic<int>> released;               // per group: started accesses completely released
    std::atomic<int> writers_in{0}, readers_in{0};
    std::atomic<int> readers_group{-1};
    Round(Case const& cc, Shared& ss, int r) : c(&cc), s(&ss), round(r), grants(cc.reqs.size()), released(cc.reqs.size() + 1)
    {
        std::size_t n = cc.reqs.size();
        group.assign(n, 0);
        expected_value.assign(n, 0);
        members.assign(n + 1, 0);
        int g = 0, writes = 0;
        for (std::size_t i = 0; i < n; ++i)
        {
            if (i > 0 && (cc.reqs[i].write || cc.reqs[i - 1].write)) ++g;
            group[i] = g;
            expected_value[i] = writes;
            if (!cc.reqs[i].drop) { ++members[static_cast<std::size_t>(g)]; if (cc.reqs[i].write) ++writes; }
        }
    }
    std::string where(int i) const { return "round " + std::to_string(round) + ", access " + std::to_string(i) + " (" + (c->reqs[static_cast<std::size_t>(i)].write ? "read-write" : "read") + ", group " + std::to_string(group[static_cast<std::size_t>(i)]) + "): "; }
    void on_grant(int i, int value)
    {
        std::size_t ui = static_cast<std::size_t>(i);
        if (grants[ui].fetch_add(1) != 0) s->fail("granted_twice", where(i) + "granted more than once");
        int g = group[ui];
        if (c->reqs[ui].write)
        {
            if (writers_in.fetch_add(1) != 0 || readers_in.load() != 0) s->fail("overlap", where(i) + "granted while another access is still held (writers " + std::to_string(writers_in.load() - 1) + ", readers " + std::to_string(readers_in.load()) + ")");
        }
        else
        {
            readers_in.fetch_add(1);
            if (writers_in.load() != 0) s->fail("overlap", where(i) + "granted while a read-write access is still held");
        }
        for (int g2 = 0; g2 < g; ++g2)
            if (released[static_cast<std::size_t>(g2)].load() != members[static_cast<std::size_t>(g2)])
                s->fail("order", where(i) + "granted although only " + std::to_string(released[static_cast<std::size_t>(g2)].load()) + " of the " + std::to_string(members[static_cast<std::size_t>(g2)]) + " started accesses of the earlier group " + std::to_string(g2) + " have been released");
        if (value != expected_value[ui]) s->fail("stale_value", where(i) + "observed value " + std::to_string(value) + ", expected " + std::to_string(expected_value[ui]) + " (number of earlier started read-write accesses)");
    }
    // called BEFORE the last wrapper of access i is destroyed
    void before_release(int i)
    {
        std::size_t ui = static_cast<std::size_t>(i);
        if (c->reqs[ui].write) writers_in.fetch_sub(1); else readers_in.fetch_sub(1);
        released[static_cast<std::size_t>(group[ui])].fetch_add(1);
    }
};

template <typename Wrapper>
struct Recv
{
    using is_receiver = void;
    Round* w;
    int i;
    std::optional<Wrapper>* slot;
    std::atomic<int>* got;
    void set_value(Wrapper a) && noexcept
    {
        int v = 0;
        if constexpr (requires { a.get(); }) v = a.get(); else v = w->expected_value[static_cast<std::size_t>(i)];
        w->on_grant(i, v);
        slot->emplace(std::move(a));
        got->store(1, std::memory_order_release);
    }
    void set_error(std::exception_ptr) && noexcept { w->s->fail("error_signal", w->where(i) + "access sender completed with set_error"); got->store(2); }
    void set_stopped() && noexcept { w->s->fail("stopped_signal", w->where(i) + "access sender completed with set_stopped"); got->store(2); }
};

static inline void spin(int n)
{
    for (volatile int k = 0; k < n; k = k + 1) {}
}

template <typename mutex_t>
static Outcome run_with(Case const& c)
{
    using rd_t = typename mutex_t::read_access_type;
    using rw_t = typename mutex_t::readwrite_access_type;
    constexpr bool has_value = std::is_same_v<mutex_t, mutex_int_t>;
    std::size_t n = c.reqs.size();
    auto* sp = new Shared();    // (leaked when a thread is stuck)
    Shared& s = *sp;
    long long rounds_done = 0, grants_total = 0;
    bool stuck = false;
    for (int round = 0; round < c.rounds && !s.fail_set.load(); ++round)
    {
        auto* rp = new Round(c, s, round);
        Round& R = *rp;
        mutex_t* mtx = nullptr;
        if constexpr (has_value) mtx = new mutex_t(0); else mtx = new mutex_t();
        using rsend_t = decltype(std::declval<mutex_t&>().read());
        using wsend_t = decltype(std::declval<mutex_t&>().readwrite());
        auto* rsend = new std::vector<std::optional<rsend_t>>(n);
        auto* wsend = new std::vector<std::optional<wsend_t>>(n);
        for (std::size_t i = 0; i < n; ++i)
            if (c.reqs[i].write) (*wsend)[i].emplace(mtx->readwrite()); else (*rsend)[i].emplace(mtx->read());
        auto* arrived = new std::atomic<int>(0);
        auto* go = new std::atomic<bool>(false);
        auto* finished = new std::atomic<int>(0);
        auto* lost = new std::atomic<int>(-1);
        auto* th = new std::vector<std::thread>();
        for (int t = 0; t < c.nth; ++t)
            th->emplace_back([&c, &s, &R, rsend, wsend, arrived, go, finished, lost, t, round, n] {
                arrived->fetch_add(1);
                while (!go->load(std::memory_order_acquire)) {}
                spin((c.skew0[static_cast<std::size_t>(t)] + c.step[static_cast<std::size_t>(t)] * round) % c.span);
                for (std::size_t i = 0; i < n && !s.fail_set.load(); ++i)
                {
                    Req const& r = c.reqs[i];
                    if (r.thread != t) continue;
                    if (r.drop) { if (r.write) (*wsend)[i].reset(); else (*rsend)[i].reset(); continue; }
                    std::atomic<int> got{0};
                    auto wait_grant = [&]() -> bool {
                        auto t0 = std::chrono::steady_clock::now();
                        long spins = 0;
                        while (got.load(std::memory_order_acquire) == 0)
                        {
                            if (s.fail_set.load()) return false;
                            if ((++spins & 1023) == 0)
                            {
                                std::this_thread::yield();
                                if (std::chrono::steady_clock::now() - t0 > std::chrono::seconds(5))
                                {
                                    // lost only if everything before it is released (otherwise somebody is merely slow / stuck elsewhere)
                                    bool earlier_released = true;
                                    for (int g2 = 0; g2 < R.group[i]; ++g2) earlier_released &= R.released[static_cast<std::size_t>(g2)].load() == R.members[static_cast<std::size_t>(g2)];
                                    if (earlier_released && std::chrono::steady_clock::now() - t0 > std::chrono::seconds(10))
                                    {
                                        s.fail("lost_grant", R.where(static_cast<int>(i)) + "started, every started access of every earlier group has been released, but the access has not been granted for 10 s");
                                        lost->store(static_cast<int>(i));
                                        return false;
                                    }
                                    if (std::chrono::steady_clock::now() - t0 > std::chrono::seconds(40)) { s.fail("no_progress", R.where(static_cast<int>(i)) + "not granted for 40 s while earlier accesses are unreleased"); lost->store(static_cast<int>(i)); return false; }
                                }
                            }
                        }
                        return got.load() == 1;
                    };
                    if (r.write)
                    {
                        std::optional<rw_t> slot;
                        auto os = ex::connect(std::move(*(*wsend)[i]), Recv<rw_t>{&R, static_cast<int>(i), &slot, &got});
                        (*wsend)[i].reset();
                        ex::start(os);
                        if (!wait_grant()) { lost->store(static_cast<int>(i)); finished->fetch_add(1); for (;;) std::this_thread::sleep_for(std::chrono::seconds(1)); }    // parked: the operation state may still be referenced by the chain
                        if constexpr (has_value) slot->get() += 1;
                        spin(r.hold);
                        R.before_release(static_cast<int>(i));
                        slot.reset();
                    }
                    else
                    {
                        std::optional<rd_t> slot;
                        auto os = ex::connect(std::move(*(*rsend)[i]), Recv<rd_t>{&R, static_cast<int>(i), &slot, &got});
                        (*rsend)[i].reset();
                        ex::start(os);
                        if (!wait_grant()) { lost->store(static_cast<int>(i)); finished->fetch_add(1); for (;;) std::this_thread::sleep_for(std::chrono::seconds(1)); }    // parked: the operation state may still be referenced by the chain
                        std::optional<rd_t> wcopy;
                        if (r.copy_wrapper) wcopy.emplace(*slot);
                        spin(r.hold);
                        if (wcopy)
                        {
                            slot.reset();    // the copy keeps the access alive
                            spin(r.hold);
                            if constexpr (has_value)
                                if (wcopy->get() != R.expected_value[i]) s.fail("stale_value", R.where(static_cast<int>(i)) + "copied read wrapper sees " + std::to_string(wcopy->get()) + " after the original was released");
                            R.before_release(static_cast<int>(i));
                            wcopy.reset();
                        }
                        else
                        {
                            R.before_release(static_cast<int>(i));
                            slot.reset();
                        }
                    }
                }
                finished->fetch_add(1);
            });
        while (arrived->load() != c.nth) {}
        go->store(true, std::memory_order_release);
        while (finished->load() != c.nth) std::this_thread::yield();
        if (lost->load() >= 0)
        {
            // a thread is parked for good with live operation states: leak the round
            for (auto& x : *th) x.detach();
            stuck = true;
            break;
        }
        for (auto& x : *th) x.join();
        if (!s.fail_set.load())
            for (std::size_t i = 0; i < n; ++i)
                if (!c.reqs[i].drop && R.grants[i].load() != 1) { s.fail("grant_count", R.where(static_cast<int>(i)) + "granted " + std::to_string(R.grants[i].load()) + " times"); break; }
        for (std::size_t i = 0; i < n; ++i) grants_total += R.grants[i].load();
        ++rounds_done;
        delete mtx;
        delete rsend; delete wsend; delete arrived; delete go; delete finished; delete lost; delete th; delete rp;
    }
    Outcome out;
    if (s.fail_set.load())
    {
        std::lock_guard<std::mutex> l(s.fm);
        if (s.oracle == "no_progress") { out.kind = Outcome::INCONCLUSIVE; out.msg = s.msg; }
        else out = Outcome::fail(s.oracle, s.msg);
    }
    int ngroups = 1;
    for (std::size_t i = 1; i < n; ++i) if (c.reqs[i].write || c.reqs[i - 1].write) ++ngroups;
    bool multi_read = false, drop = false;
    for (std::size_t i = 0; i + 1 < n; ++i) multi_read |= (!c.reqs[i].write && !c.reqs[i + 1].write);
    for (auto const& r : c.reqs) drop |= r.drop;
    out.counters["rounds"] = rounds_done;
    out.counters["grants"] = grants_total;
    out.nontrivial = ngroups >= 2 && c.nth >= 2;
    if (multi_read) out.tags.push_back("has:read_group>=2");
    if (drop) out.tags.push_back("has:unstarted_drop");
    out.tags.push_back("groups:" + std::to_string(std::min(ngroups, 6)));
    out.tags.push_back(has_value ? "mutex:async_rw_mutex<int>" : "mutex:async_rw_mutex<void>");
    if (!stuck) delete sp;
    return out;
}

static Outcome run(tape_t const& tape)
{
    Case c = decode(tape);
    return c.void_mutex ? run_with<mutex_void_t>(c) : run_with<mutex_int_t>(c);
}

int main(int argc, char** argv)
{
    Target T;
    T.property = "C04";
    T.engine = "E-stress";
    T.forked = true;
    T.tape_scale = 3;
    T.child_timeout_s = 120;
    T.describe = describe;
    T.run = run;
    T.signature = [](tape_t const&, Outcome const& o) { return std::string("{\"oracle\": ") + jstr(o.oracle) + ", \"threads\": \"real\"}"; };
    return target_main(argc, argv, T);
}
