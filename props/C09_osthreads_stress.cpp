// C09 (plain OS threads) — latch, barrier, event and call_once used from std::threads without a pika runtime: blocked
// callers suspend through execution_base's default agent (the E-vt target replaces the agent by the harness's own).
// Engine: E-stress (real threads; the schedule is not owned by the harness).
// Each generated case = primitive x 2..5 OS threads x per-thread roles x rounds (one fresh latch / once_flag per round, one
// barrier for all phases, one event with reset between rounds); the threads start every round together from a spin barrier
// of the harness with generated skews.
// Oracles (shadow state written BEFORE the pika call that publishes it, read AFTER the pika call that waits for it):
// latch: wait / arrive_and_wait / try_wait()==true only after the counted-down total reached the initial count;
// barrier: the completion function of phase k runs exactly once, after all expected arrivals of phase k and before anybody
// leaves phase k (arrive_and_drop lowers the expected count of later phases); event: wait returns only after a set()
// started; call_once: the callable succeeds exactly once, never runs concurrently with itself, an attempt that throws is
// seen by its own caller only and somebody else retries, every normal return happens after the successful run finished.
// Liveness: no thread stays inside a waiting call for 10 s without any progress anywhere although its release condition
// is met according to the shadow state = lost wake-up.
#include "core.hpp"

#include <pika/barrier.hpp>
#include <pika/latch.hpp>
#include <pika/synchronization/event.hpp>
#include <pika/synchronization/once.hpp>

#include <atomic>
#include <chrono>
#include <memory>
#include <mutex>
#include <thread>
#include <vector>

using namespace vf;

enum Mode { M_LATCH, M_BARRIER, M_EVENT, M_ONCE, M_COUNT };
static char const* const mode_names[] = {"latch", "barrier", "event", "call_once"};

struct Case
{
    int mode = 0;
    int nth = 2;
    int rounds = 300;
    std::vector<int> skew;       // per thread
    // latch: per thread: amount counted down per round (0..2), final op 0 none / 1 wait / 2 arrive_and_wait(1) / 3 try_wait poll
    std::vector<int> amount, final_op;
    // barrier: per thread form 0 arrive_and_wait / 1 arrive + wait(token); one optional dropper (thread index, phase)
    std::vector<int> bform;
    int dropper = -1;
    long drop_phase = 0;
    // call_once: the first `throws` attempts of every round throw
    int throws = 0;
};

static Case decode(tape_t const& tape)
{
    Tape t(tape);
    Case c;
    c.mode = static_cast<int>(t.below(M_COUNT));
    c.nth = 2 + static_cast<int>(t.below(4));
    c.rounds = t.pick({300, 2000, 10000});
    int span = t.pick({0, 16, 256, 4096});
    for (int i = 0; i < c.nth; ++i) c.skew.push_back(span ? static_cast<int>(t.below(static_cast<std::uint32_t>(span))) : 0);
    for (int i = 0; i < c.nth; ++i)
    {
        c.amount.push_back(static_cast<int>(t.below(3)));
        c.final_op.push_back(t.weighted({2, 4, 2, 2}));
        c.bform.push_back(t.chance(1, 3) ? 1 : 0);
    }
    // somebody has to wait and somebody has to count
    if (c.mode == M_LATCH)
    {
        bool any = false;
        for (int a : c.amount) any |= a > 0;
        if (!any) c.amount[0] = 1;
        // arrive_and_wait(1) counts one more
    }
    if (t.chance(1, 3) && c.nth >= 3) { c.dropper = static_cast<int>(t.below(static_cast<std::uint32_t>(c.nth))); c.drop_phase = static_cast<long>(t.below(static_cast<std::uint32_t>(c.rounds))); }
    c.throws = t.weighted({3, 2, 1});
    if (c.throws >= c.nth) c.throws = c.nth - 1;
    return c;
}

static std::string describe(tape_t const& tape)
{
    Case c = decode(tape);
    std::ostringstream os;
    os << "{\"primitive\": \"" << mode_names[c.mode] << "\", \"os_threads\": " << c.nth << ", \"rounds\": " << c.rounds << ", \"skews\": [";
    for (std::size_t i = 0; i < c.skew.size(); ++i) os << (i ? "," : "") << c.skew[i];
    os << "]";
    if (c.mode == M_LATCH)
    {
        static char const* const fn[] = {"-", "wait", "arrive_and_wait(1)", "try_wait poll"};
        os << ", \"threads\": [";
        for (int i = 0; i < c.nth; ++i) os << (i ? ", " : "") << "\"count_down(" << c.amount[static_cast<std::size_t>(i)] << ") " << fn[c.final_op[static_cast<std::size_t>(i)]] << "\"";
        os << "]";
    }
    if (c.mode == M_BARRIER)
    {
        os << ", \"threads\": [";
        for (int i = 0; i < c.nth; ++i) os << (i ? ", " : "") << "\"" << (c.bform[static_cast<std::size_t>(i)] ? "arrive+wait(token)" : "arrive_and_wait") << (i == c.dropper ? " arrive_and_drop at phase " + std::to_string(c.drop_phase) : std::string()) << "\"";
        os << "]";
    }
    if (c.mode == M_ONCE) os << ", \"throwing_attempts_per_round\": " << c.throws;
    os << "}";
    return os.str();
}

struct Shared
{
    std::atomic<int> fail_set{0};
    std::string oracle, msg;
    std::mutex fm;
    std::atomic<long> progress{0};
    std::vector<std::atomic<int>> where;       // per thread: 0 active outside, 1 inside a waiting call of the primitive, 2 finished, 3 parked in a harness wait
    std::vector<std::atomic<long>> round_of;
    explicit Shared(std::size_t n) : where(n), round_of(n) {}
    void fail(char const* o, std::string m)
    {
        std::lock_guard<std::mutex> l(fm);
        if (fail_set.load()) return;
        oracle = o;
        msg = std::move(m);
        fail_set.store(1);
    }
};
struct SpinBarrier
{
    std::atomic<long> count{0}, gen{0};
    long n = 1;
    void wait(std::atomic<int>& stop)
    {
        long g = gen.load();
        if (count.fetch_add(1) + 1 == n) { count.store(0); gen.fetch_add(1); }
        else while (gen.load() == g && !stop.load()) {}
    }
};
static inline void spin(int n)
{
    for (volatile int k = 0; k < n; k = k + 1) {}
}
struct Boom { int who; };

// everything a stuck thread may still touch lives here and is leaked when somebody is stuck
struct World
{
    Case c;
    Shared s;
    SpinBarrier sb;
    std::vector<std::thread> th;
    // latch
    std::vector<std::unique_ptr<pika::latch>> latches;
    std::vector<std::atomic<long>> remaining;
    // barrier
    std::atomic<long> arrived_total{0}, completions{0}, departed_total{0};
    struct Completion
    {
        World* w;
        void operator()() noexcept
        {
            long k = w->completions.load();
            long expect = w->expected_cumulative(k);
            long got = w->arrived_total.load();
            if (got != expect) w->s.fail("barrier_completion_order", "completion function of phase " + std::to_string(k) + " ran after " + std::to_string(got) + " arrivals in total, expected " + std::to_string(expect));
            if (w->departed_total.load() != w->expected_departed_before(k)) w->s.fail("barrier_completion_order", "a participant left phase " + std::to_string(k) + " before its completion function ran");
            w->completions.fetch_add(1);
        }
    };
    std::unique_ptr<pika::barrier<Completion>> bar;
    long expected_cumulative(long k) const
    {
        // arrivals started up to and including phase k
        long T = c.nth;
        if (c.dropper < 0 || k <= c.drop_phase) return (k + 1) * T;
        return (c.drop_phase + 1) * T + (k - c.drop_phase) * (T - 1);
    }
    long expected_departed_before(long k) const
    {
        // departures (returns from wait) of phases < k; the dropper does not depart from its drop phase
        long T = c.nth;
        if (c.dropper < 0 || k <= c.drop_phase) return k * T;
        return c.drop_phase * T + (T - 1) + (k - c.drop_phase - 1) * (T - 1);
    }
    // event
    pika::experimental::event ev;
    std::atomic<long> sets_started{0}, out_count{0}, reset_done{0};
    // once
    std::vector<std::unique_ptr<pika::once_flag>> flags;
    std::vector<std::atomic<int>> attempts, successes;
    std::atomic<int> in_body{0};
    explicit World(Case const& cc) : c(cc), s(static_cast<std::size_t>(cc.nth)), remaining(cc.mode == M_LATCH ? static_cast<std::size_t>(cc.rounds) : 0),
        attempts(cc.mode == M_ONCE ? static_cast<std::size_t>(cc.rounds) : 0), successes(cc.mode == M_ONCE ? static_cast<std::size_t>(cc.rounds) : 0) {}
};

static void thread_body(World& w, int i)
{
    Case const& c = w.c;
    Shared& s = w.s;
    std::size_t ui = static_cast<std::size_t>(i);
    bool dropped = false;
    for (long r = 0; r < c.rounds && !s.fail_set.load(); ++r)
    {
        s.round_of[ui].store(r);
        if (c.mode != M_BARRIER) { s.where[ui].store(3); w.sb.wait(s.fail_set); s.where[ui].store(0); }    // (the barrier under test is its own round synchronisation)
        if (s.fail_set.load()) break;
        spin(c.skew[ui]);
        std::size_t ur = static_cast<std::size_t>(r);
        switch (c.mode)
        {
        case M_LATCH:
        {
            pika::latch& l = *w.latches[ur];
            auto check_open = [&](char const* what) {
                long rem = w.remaining[ur].load();
                if (rem != 0) s.fail("latch_released_early", std::string(what) + " of round " + std::to_string(r) + " returned while " + std::to_string(rem) + " of the initial count had not been counted down yet");
            };
            if (c.amount[ui] > 0) { w.remaining[ur].fetch_sub(c.amount[ui]); l.count_down(c.amount[ui]); }
            switch (c.final_op[ui])
            {
            case 1: s.where[ui].store(1); l.wait(); s.where[ui].store(0); check_open("latch::wait"); break;
            case 2: w.remaining[ur].fetch_sub(1); s.where[ui].store(1); l.arrive_and_wait(1); s.where[ui].store(0); check_open("latch::arrive_and_wait"); break;
            case 3: s.where[ui].store(1); while (!l.try_wait()) { if (s.fail_set.load()) break; std::this_thread::yield(); } s.where[ui].store(0); if (!s.fail_set.load()) check_open("latch::try_wait() == true"); break;
            default: break;
            }
            break;
        }
        case M_BARRIER:
        {
            if (dropped) break;
            w.arrived_total.fetch_add(1);
            if (i == c.dropper && r == c.drop_phase) { w.bar->arrive_and_drop(); dropped = true; break; }
            s.where[ui].store(1);
            if (c.bform[ui] == 0) w.bar->arrive_and_wait();
            else { auto tok = w.bar->arrive(); spin(c.skew[ui]); w.bar->wait(std::move(tok)); }
            s.where[ui].store(0);
            long done = w.completions.load();
            if (done != r + 1) s.fail("barrier_released_early", "thread " + std::to_string(i) + " left phase " + std::to_string(r) + " while the completion function had run " + std::to_string(done) + " times");
            w.departed_total.fetch_add(1);
            break;
        }
        case M_EVENT:
        {
            if (i == 0)
            {
                // setter: set, wait until every waiter of this round is out of wait(), reset
                w.sets_started.store(r + 1);
                w.ev.set();
                s.where[ui].store(3);
                while (w.out_count.load() < (r + 1) * (c.nth - 1) && !s.fail_set.load()) {}
                s.where[ui].store(0);
                if (!s.fail_set.load()) { w.ev.reset(); w.reset_done.store(r + 1); }
            }
            else
            {
                s.where[ui].store(1);
                w.ev.wait();
                s.where[ui].store(0);
                if (w.sets_started.load() < r + 1) s.fail("event_released_early", "event::wait of round " + std::to_string(r) + " returned before set() of that round had started");
                w.out_count.fetch_add(1);
                // the event is reset by the setter before the next round starts
                s.where[ui].store(3);
                while (w.reset_done.load() < r + 1 && !s.fail_set.load()) {}
                s.where[ui].store(0);
            }
            break;
        }
        default:
        {
            pika::once_flag& f = *w.flags[ur];
            bool my_attempt_threw = false;
            try
            {
                s.where[ui].store(1);
                pika::call_once(f, [&] {
                    int a = w.attempts[ur].fetch_add(1) + 1;
                    if (w.in_body.fetch_add(1) != 0) s.fail("call_once_concurrent_bodies", "two callables of the same once_flag ran at the same time (round " + std::to_string(r) + ")");
                    spin(c.skew[ui]);
                    bool do_throw = a <= c.throws;
                    w.in_body.fetch_sub(1);
                    if (do_throw) { my_attempt_threw = true; throw Boom{i}; }
                    w.successes[ur].fetch_add(1);
                });
                s.where[ui].store(0);
                int ok = w.successes[ur].load();
                if (ok != 1) s.fail("call_once_count", "call_once of round " + std::to_string(r) + " returned normally to thread " + std::to_string(i) + " while the callable had succeeded " + std::to_string(ok) + " times");
            }
            catch (Boom const& b)
            {
                s.where[ui].store(0);
                if (b.who != i || !my_attempt_threw) s.fail("call_once_foreign_exception", "an exception thrown by another caller's attempt reached thread " + std::to_string(i));
            }
            break;
        }
        }
        s.progress.fetch_add(1);
    }
    s.where[ui].store(2);
}

static Outcome run(tape_t const& tape)
{
    Case c = decode(tape);
    auto* wp = new World(c);
    World& w = *wp;
    Shared& s = w.s;
    w.sb.n = c.nth;
    if (c.mode == M_LATCH)
        for (long r = 0; r < c.rounds; ++r)
        {
            long total = 0;
            for (int i = 0; i < c.nth; ++i) total += c.amount[static_cast<std::size_t>(i)] + (c.final_op[static_cast<std::size_t>(i)] == 2 ? 1 : 0);
            w.latches.push_back(std::make_unique<pika::latch>(total));
            w.remaining[static_cast<std::size_t>(r)].store(total);
        }
    if (c.mode == M_BARRIER) w.bar = std::make_unique<pika::barrier<World::Completion>>(c.nth, World::Completion{&w});
    if (c.mode == M_ONCE)
        for (long r = 0; r < c.rounds; ++r) w.flags.push_back(std::make_unique<pika::once_flag>());
    for (int i = 0; i < c.nth; ++i) w.th.emplace_back([&w, i] { thread_body(w, i); });

    long last = -1;
    auto since = std::chrono::steady_clock::now();
    bool stuck = false;
    auto all_finished = [&] { bool all = true; for (auto& x : s.where) all &= x.load() == 2; return all; };
    for (;;)
    {
        if (all_finished()) break;
        if (s.fail_set.load())
        {
            auto t1 = std::chrono::steady_clock::now();
            while (!all_finished() && std::chrono::steady_clock::now() - t1 < std::chrono::seconds(2)) std::this_thread::sleep_for(std::chrono::milliseconds(20));
            stuck = !all_finished();
            break;
        }
        long p = s.progress.load();
        auto now = std::chrono::steady_clock::now();
        if (p != last) { last = p; since = now; }
        else if (now - since > std::chrono::seconds(10))
        {
            std::string d = std::string(mode_names[c.mode]) + ": ";
            bool someone_waits = false, someone_outside = false;
            for (int i = 0; i < c.nth; ++i)
            {
                int wh = s.where[static_cast<std::size_t>(i)].load();
                d += "thread" + std::to_string(i) + " round " + std::to_string(s.round_of[static_cast<std::size_t>(i)].load()) + (wh == 1 ? " inside a waiting call" : wh == 2 ? " finished" : wh == 3 ? " parked (harness rendezvous)" : " active") + "; ";
                someone_waits |= wh == 1;
                someone_outside |= wh == 0;
            }
            // nobody is active (nobody can still be about to release the others: every release of a round is issued before its issuer parks
            // or waits) and somebody waits inside the primitive: the release was lost
            if (someone_waits && !someone_outside) s.fail("lost_wakeup", "no thread made progress for 10 s; every unfinished thread is inside a waiting call of the primitive or parked behind one: " + d + "(plain OS threads)");
            else s.fail("no_progress", "no thread made progress for 10 s: " + d);
            stuck = true;
            break;
        }
        std::this_thread::sleep_for(std::chrono::milliseconds(5));
    }
    Outcome out;
    if (stuck) for (auto& x : w.th) x.detach();
    else for (auto& x : w.th) x.join();
    if (s.fail_set.load())
    {
        std::lock_guard<std::mutex> l(s.fm);
        if (s.oracle == "no_progress") { out.kind = Outcome::INCONCLUSIVE; out.msg = s.msg; }
        else out = Outcome::fail(s.oracle, s.msg);
    }
    else if (c.mode == M_BARRIER)
    {
        long expect = c.rounds;
        if (w.completions.load() != expect) out = Outcome::fail("barrier_completion_count", "the completion function ran " + std::to_string(w.completions.load()) + " times for " + std::to_string(expect) + " phases");
    }
    else if (c.mode == M_ONCE)
    {
        for (long r = 0; r < c.rounds; ++r)
            if (w.successes[static_cast<std::size_t>(r)].load() != 1) { out = Outcome::fail("call_once_count", "the callable of round " + std::to_string(r) + " succeeded " + std::to_string(w.successes[static_cast<std::size_t>(r)].load()) + " times"); break; }
    }
    out.counters["thread_rounds"] = s.progress.load();
    out.nontrivial = c.nth >= 3 || c.rounds >= 2000;
    out.tags.push_back(std::string("primitive:") + mode_names[c.mode]);
    if (c.mode == M_BARRIER && c.dropper >= 0) out.tags.push_back("has:arrive_and_drop");
    if (c.mode == M_ONCE && c.throws) out.tags.push_back("has:throwing_attempts");
    if (!stuck) delete wp;
    return out;
}

int main(int argc, char** argv)
{
    Target T;
    T.property = "C09";
    T.engine = "E-stress";
    T.forked = true;
    T.tape_scale = 3;
    T.child_timeout_s = 120;
    T.describe = describe;
    T.run = run;
    T.signature = [](tape_t const& tape, Outcome const& o) {
        Case c = decode(tape);
        return std::string("{\"oracle\": ") + jstr(o.oracle) + ", \"threads\": \"real\", \"primitive\": " + jstr(mode_names[c.mode]) + "}";
    };
    return target_main(argc, argv, T);
}
