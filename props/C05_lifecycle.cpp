// C05 — runtime life cycle: wait/stop drain all work, restart works, nothing runs while suspended.
// Engine: E-rt, one child process = one history of 1..3 runtime incarnations.
#include "prog.hpp"

using namespace vf;
using namespace vf::prog;

enum StepKind { ST_SUBMIT, ST_WAIT, ST_SUSPEND_RESUME, ST_BURST_WAIT };
struct Step
{
    int kind;
    int wave;    // wave submitted by this step (-1: none)
    int reps = 1;    // ST_SUSPEND_RESUME without a wave: number of back-to-back suspend();resume() cycles
};
struct Incarnation
{
    RtConfig cfg;
    Program prog;
    int entry = 0;        // 0: start(nullptr), 1: start(f) f returns ret, 2: init(f) history driven from inside pika_main
    int ret = 0;
    int finalizer = 0;    // 0 main thread, 1 inside pika_main (entry 1/2), 2 from a task, 3 external OS thread
    int f_work = 0;       // entry 1: how long the entry function keeps working (yielding) after its (optional) finalize() before it returns: 0 / 0.2 / 1 / 5 ms
    std::vector<Step> steps;
};
struct Case
{
    std::vector<Incarnation> inc;
};

static Case decode(tape_t const& tape)
{
    Tape t(tape);
    Case c;
    int n = t.weighted({3, 3, 1}) + 1;
    for (int k = 0; k < n; ++k)
    {
        Incarnation in;
        in.cfg = decode_config(t, {S_SL_AFTER_RUN, S_SL_AFTER_STORE, S_SL_BEFORE_RUN, S_DO_YIELD, S_EXIT_CALLBACKS});
        ProgOptions o;
        o.workers = in.cfg.workers;
        o.max_tasks = 150;
        in.prog = decode_program(t, o);
        in.entry = t.weighted({3, 3, 2});
        in.ret = t.pick({0, 1, 7, 42, -3});
        in.finalizer = t.weighted({3, 2, 2, 1});
        if (in.entry == 0 && in.finalizer == 1) in.finalizer = 0;
        if (in.entry == 2 && in.finalizer == 0) in.finalizer = 1;
        if (in.entry == 2 && in.finalizer == 3) in.finalizer = 2;
        if (in.entry == 2)
        {
            // pika::wait() called from a task is a polling loop at normal priority: on few workers it
            // legally starves low-priority work forever, so in-task histories use no low-priority tasks
            for (auto& ts : in.prog.tasks) if (ts.prio == 1) ts.prio = 0;
            for (auto& ev : in.prog.events) if (ev.kind == 4) ev.kind = 2;
        }
        // steps: every wave is submitted by exactly one step, in wave order
        for (int w = 0; w < in.prog.nwaves; ++w)
        {
            int kind = t.weighted({4, 2, 2});    // submit / submit during suspension / burst concurrent with wait
            if (in.entry == 2 && kind == 1) kind = 0;    // suspend/resume need a non-pika thread
            if (kind == 0) in.steps.push_back({ST_SUBMIT, w});
            else if (kind == 1) in.steps.push_back({ST_SUSPEND_RESUME, w});
            else in.steps.push_back({ST_BURST_WAIT, w});
            if (t.chance(1, 2)) in.steps.push_back({ST_WAIT, -1});
            if (in.entry != 2 && t.chance(1, 5)) in.steps.push_back({ST_SUSPEND_RESUME, -1, std::min(t.pick({1, 1, 3, 20, 200}), in.cfg.workers <= 4 ? 200 : 30)});    // (a cycle over many workers is slow: bounded so that the case stays well below its watchdog)
        }
        in.f_work = t.pick({0, 0, 1, 2, 3});
        c.inc.push_back(std::move(in));
    }
    return c;
}

static std::string describe(tape_t const& tape)
{
    Case c = decode(tape);
    std::ostringstream os;
    os << "{\"incarnations\": [";
    for (std::size_t k = 0; k < c.inc.size(); ++k)
    {
        auto const& in = c.inc[k];
        static char const* const en[] = {"start(nullptr)", "start(f)", "init(f): history runs inside pika_main"};
        static char const* const fn[] = {"main thread", "pika_main", "task", "external OS thread"};
        static char const* const sn[] = {"submit", "wait", "suspend/resume", "burst||wait"};
        os << (k ? ", " : "") << "{\"entry\": \"" << en[in.entry] << "\", \"ret\": " << in.ret << ", \"entry_works_after_finalize_code\": " << in.f_work << ", \"finalize_from\": \"" << fn[in.finalizer]
           << "\", \"steps\": [";
        for (std::size_t s = 0; s < in.steps.size(); ++s)
            os << (s ? ", " : "") << "\"" << sn[in.steps[s].kind] << (in.steps[s].wave >= 0 ? " wave " + std::to_string(in.steps[s].wave) : std::string()) << (in.steps[s].reps > 1 ? " x" + std::to_string(in.steps[s].reps) : std::string()) << "\"";
        os << "], \"config\": " << in.cfg.describe() << ", \"program\": " << in.prog.describe() << "}";
    }
    os << "]}";
    return os.str();
}

static std::atomic<int> g_suspended{0};
static std::atomic<long long> g_waits_with_unborn{0}, g_suspend_with_queued{0};

// run the steps; in_task: driver is pika_main (entry 2)
static std::string run_steps(Incarnation const& in, Interp& ip, bool in_task, std::vector<int>& submitted)
{
    auto check_submitted = [&](char const* where) -> std::string {
        for (int w = 0; w < in.prog.nwaves; ++w)
        {
            if (!submitted[static_cast<std::size_t>(w)]) continue;
            for (int i = 0; i < ip.led.n; ++i)
            {
                if (in.prog.tasks[static_cast<std::size_t>(i)].wave != w) continue;
                int e = ip.led.entered[static_cast<std::size_t>(i)].load(), f = ip.led.finished[static_cast<std::size_t>(i)].load();
                if (e != 1 || f != 1)
                    return std::string(where) + ": task " + std::to_string(i) + " of wave " + std::to_string(w) +
                        " (submitted before the call) entered=" + std::to_string(e) + " finished=" + std::to_string(f);
            }
        }
        return "";
    };
    for (Step const& st : in.steps)
    {
        switch (st.kind)
        {
        case ST_SUBMIT:
            ip.submit_wave(st.wave);
            submitted[static_cast<std::size_t>(st.wave)] = 1;
            break;
        case ST_WAIT:
        {
            // classification: was some submitted task still unborn/unfinished when wait was called?
            bool pending_work = false;
            for (int i = 0; i < ip.led.n && !pending_work; ++i)
                if (submitted[static_cast<std::size_t>(in.prog.tasks[static_cast<std::size_t>(i)].wave)] && ip.led.finished[static_cast<std::size_t>(i)].load() == 0) pending_work = true;
            if (pending_work) g_waits_with_unborn.fetch_add(1);
            {
                MainWaiting mw;
                pika::wait();
            }
            std::string e = check_submitted("after pika::wait() returned");
            if (!e.empty()) return e;
            break;
        }
        case ST_SUSPEND_RESUME:
        {
            // resume() right after suspend() returned: the workers may not have reached their sleep yet
            for (int rep = 1; rep < st.reps; ++rep)
            {
                {
                    BoundedCall bc("pika::suspend() (back-to-back cycle " + std::to_string(rep) + ")");
                    MainWaiting mw;
                    pika::suspend();
                }
                g_suspended.store(1);
                g_suspended.store(0);
                BoundedCall bc("pika::resume() right after pika::suspend() returned (back-to-back cycle " + std::to_string(rep) + ")");
                pika::resume();
            }
            {
                BoundedCall bc("pika::suspend()");
                MainWaiting mw;
                pika::suspend();
            }
            g_suspended.store(1);
            if (st.wave >= 0)
            {
                ip.submit_wave(st.wave);
                g_suspend_with_queued.fetch_add(1);
                // nothing of this wave may have started
                struct timespec ts { 0, 2000000 };
                nanosleep(&ts, nullptr);
            }
            g_suspended.store(0);
            {
                BoundedCall bc("pika::resume()");
                pika::resume();
            }
            if (st.wave >= 0) submitted[static_cast<std::size_t>(st.wave)] = 1;
            break;
        }
        case ST_BURST_WAIT:
        {
            // an external thread submits the wave while this thread is inside wait(): tasks of this
            // wave are not covered by this wait's guarantee, only by the next one
            G().external_actors.fetch_add(1);
            std::thread sub([&] {
                ip.submit_wave(st.wave);
                G().external_actors.fetch_sub(1);
            });
            {
                MainWaiting mw;
                pika::wait();
            }
            std::string e = check_submitted("after pika::wait() (concurrent external burst) returned");
            sub.join();
            submitted[static_cast<std::size_t>(st.wave)] = 1;
            if (!e.empty()) return e;
            break;
        }
        }
    }
    return "";
}

static Outcome run(tape_t const& tape)
{
    Case c = decode(tape);
    Outcome out;
    long long total_tasks = 0;
    bool any_suspend = false;
    for (std::size_t k = 0; k < c.inc.size() && out.kind == Outcome::PASS; ++k)
    {
        Incarnation const& in = c.inc[k];
        if (k == 0) restrict_cpus(in.cfg.cpus);
        install_hook(in.cfg);
        Interp ip(in.prog, in.cfg);
        ip.body_hook = [](int i) {
            if (g_suspended.load()) fail_now("ran_while_suspended", "body segment of task " + std::to_string(i) + " executed while the runtime was suspended");
        };
        G().diagnose = [&] { return "incarnation " + std::to_string(k) + ": " + ip.diagnose(); };
        std::vector<int> submitted(static_cast<std::size_t>(in.prog.nwaves), 0);
        std::string err;
        std::atomic<int> entry_ran{0};
        ArgvHolder ah;
        ah.s = config_args(in.cfg);
        ah.build();
        int argc = static_cast<int>(ah.s.size());
        Quiescence q;
        auto do_finalize_from = [&](int who) {
            if (who == 0) pika::finalize();
            else if (who == 2)
            {
                ex::execute(ex::thread_pool_scheduler{}, [] { pika::finalize(); });
            }
            else if (who == 3)
            {
                std::thread th([] { pika::finalize(); });
                th.join();
            }
        };
        int result = -12345;
        // "the runtime can be started again any number of times": a start that throws is the violation, not a harness problem
        auto start_failed = [&](char const* what, std::exception const& e) {
            fail_now("runtime_cannot_be_started", "incarnation #" + std::to_string(k + 1) + " of " + std::to_string(c.inc.size()) + " in this process: " + what + " threw: " + e.what() +
                    (k ? " (the previous incarnations were started, finalized and stopped normally)" : ""));
        };
        if (in.entry == 2)
        {
            // pika::init: everything happens inside pika_main
            auto f = [&](int, char**) -> int {
                entry_ran.fetch_add(1);
                q.start();
                err = run_steps(in, ip, true, submitted);
                q.enter_stop_mode([&] {
                    for (int i = 0; i < ip.led.n; ++i) if (ip.led.finished[static_cast<std::size_t>(i)].load() != 1) return false;
                    return true;
                });
                if (in.finalizer == 2) do_finalize_from(2); else pika::finalize();
                return in.ret;
            };
            try { result = pika::init(std::function<int(int, char**)>(f), argc, ah.p.data()); }
            catch (std::exception const& e) { if (entry_ran.load() == 0) start_failed("pika::init", e); throw; }
            q.finish();
        }
        else
        {
            if (in.entry == 1)
            {
                auto f = [&](int, char**) -> int {
                    entry_ran.fetch_add(1);
                    if (in.finalizer == 1) pika::finalize();
                    // the result of the entry function is whatever it returns in the end, however long after finalize()
                    static const long long work_ns[] = {0, 200000, 1000000, 5000000};
                    auto t_end = std::chrono::steady_clock::now() + std::chrono::nanoseconds(work_ns[in.f_work]);
                    while (std::chrono::steady_clock::now() < t_end) pika::this_thread::yield();
                    return in.ret;
                };
                try { pika::start(std::function<int(int, char**)>(f), argc, ah.p.data()); }
                catch (std::exception const& e) { start_failed("pika::start", e); }
            }
            else
            {
                try { pika::start(nullptr, argc, ah.p.data()); }
                catch (std::exception const& e) { start_failed("pika::start", e); }
            }
            q.start();
            err = run_steps(in, ip, false, submitted);
            q.enter_stop_mode([&] {
                for (int i = 0; i < ip.led.n; ++i) if (ip.led.finished[static_cast<std::size_t>(i)].load() != 1) return false;
                return true;
            });
            if (err.empty())
            {
                if (in.finalizer != 1) do_finalize_from(in.finalizer);
                // stop() drains the remaining work and returns: every generated task is finite (bounded spins, yields, waits that are
                // signalled by other generated tasks); a stop() that is still waiting after 30 s while the ledger shows what is left
                // is a hang, not slowness (the per-case watchdog is 60 s)
                BoundedCall bc("pika::stop() (finalize was called; it has to drain the remaining tasks and return)", 30.0);
                result = pika::stop();
            }
            q.finish();
        }
        if (!err.empty()) { out = Outcome::fail("wait_returned_early", "incarnation " + std::to_string(k) + ": " + err); break; }
        // after stop: everything finished
        for (int i = 0; i < ip.led.n; ++i)
        {
            int e = ip.led.entered[static_cast<std::size_t>(i)].load(), f = ip.led.finished[static_cast<std::size_t>(i)].load();
            if (e != 1 || f != 1)
            {
                out = Outcome::fail("stop_returned_early", "incarnation " + std::to_string(k) + ": after stop() task " + std::to_string(i) +
                        " entered=" + std::to_string(e) + " finished=" + std::to_string(f));
                break;
            }
        }
        if (out.kind != Outcome::PASS) break;
        if (in.entry != 0)
        {
            if (entry_ran.load() != 1) out = Outcome::fail("entry_function_runs", "entry function ran " + std::to_string(entry_ran.load()) + " times");
            else if (result != in.ret) out = Outcome::fail("stop_result", "stop()/init() returned " + std::to_string(result) + ", entry function returned " + std::to_string(in.ret));
        }
        total_tasks += ip.led.n;
        for (auto const& s : in.steps) any_suspend |= s.kind == ST_SUSPEND_RESUME;
    }
    add_monitor_counters(out);
    out.counters["tasks"] = total_tasks;
    out.counters["waits_with_unfinished_work"] = g_waits_with_unborn.load();
    out.counters["submits_during_suspension"] = g_suspend_with_queued.load();
    out.nontrivial = c.inc.size() >= 2 || g_waits_with_unborn.load() > 0 || g_suspend_with_queued.load() > 0;
    out.tags.push_back("incarnations:" + std::to_string(c.inc.size()));
    if (any_suspend) out.tags.push_back("has:suspend_resume");
    if (g_waits_with_unborn.load() > 0) out.tags.push_back("saw:wait_with_unfinished_work");
    if (g_suspend_with_queued.load() > 0) out.tags.push_back("saw:submit_during_suspension");
    for (auto const& in : c.inc) out.tags.push_back("entry:" + std::to_string(in.entry) + "/finalizer:" + std::to_string(in.finalizer));
    return out;
}

int main(int argc, char** argv)
{
    Target T;
    T.property = "C05";
    T.engine = "E-rt";
    T.forked = true;
    T.tape_scale = 10;
    T.child_timeout_s = 60;
    T.describe = describe;
    T.run = run;
    T.signature = [](tape_t const&, Outcome const& o) { return std::string("{\"oracle\": ") + jstr(o.oracle) + "}"; };
    return target_main(argc, argv, T);
}
