// C07 (plain OS threads) — condition_variable_any used from std::threads without a pika runtime: waiters suspend through
// the default execution agent (a mutex/condition-variable handshake per OS thread), not through the scheduler.
// Engine: E-stress (real threads, the schedule is not owned by the harness).
// The E-vt targets replace the agent by the harness's own (that is how they own the schedule), so the OS-thread half of
// "for all numbers of waiters and notifiers (pika tasks and plain OS threads)" needs a target that runs the real agent.
// Each generated case = user lock type x 1..3 waiter threads (wait form each) x notify flavour x rounds; the protocol is a
// generation counter under the user lock: the notifier publishes generation g+1 as soon as every waiter has acknowledged
// g, i.e. exactly while the waiters are on their way back into wait() -- the notification keeps landing between a waiter's
// enqueue/unlock and the completion of its suspension.
// Oracle: a waiter that is inside a wait call with the predicate already true, although the notification for that
// generation was issued after the generation was published under the user lock, and that makes no progress for 10 s
// while nothing else runs = lost notification; wait returns with the lock owned; predicate forms return pred(); a wait
// with a deadline one year away never reports a timeout; a stop-token wait returns false-with-stop only if stop was
// requested and returns once it is.
#include "core.hpp"

#include <pika/concurrency/spinlock.hpp>
#include <pika/condition_variable.hpp>
#include <pika/stop_token.hpp>

#include <atomic>
#include <chrono>
#include <mutex>
#include <thread>
#include <vector>

using namespace vf;

static thread_local int tl_id = -1;

struct TasLock
{
    std::atomic<bool> f{false};
    void lock() { while (f.exchange(true, std::memory_order_acquire)) { while (f.load(std::memory_order_relaxed)) {} } }
    bool try_lock() { return !f.exchange(true, std::memory_order_acquire); }
    void unlock() { f.store(false, std::memory_order_release); }
};
struct TasYieldLock
{
    std::atomic<bool> f{false};
    void lock() { while (f.exchange(true, std::memory_order_acquire)) std::this_thread::yield(); }
    bool try_lock() { return !f.exchange(true, std::memory_order_acquire); }
    void unlock() { f.store(false, std::memory_order_release); }
};
template <typename Base>
struct Tracked
{
    Base b;
    std::atomic<int> owner{-1};
    void lock() { b.lock(); owner.store(tl_id, std::memory_order_relaxed); }
    bool try_lock() { if (!b.try_lock()) return false; owner.store(tl_id, std::memory_order_relaxed); return true; }
    void unlock() { owner.store(-1, std::memory_order_relaxed); b.unlock(); }
};

enum LockKind { L_STD_MUTEX, L_PIKA_SPINLOCK, L_TAS, L_TAS_YIELD, L_COUNT };
static char const* const lock_names[] = {"std::mutex", "pika::concurrency::detail::spinlock", "test-and-set spin lock", "test-and-set lock that yields"};
enum Form { F_LOOP, F_PRED, F_FOR_YEAR_PRED, F_UNTIL_YEAR_LOOP, F_STOKEN_PRED, F_COUNT };
static char const* const form_names[] = {"wait(l) loop", "wait(l,pred)", "wait_for(l,1 year,pred)", "wait_until(l,now+1 year) loop", "wait(l,stop_token,pred)"};

struct Case
{
    int lock = 0;
    std::vector<int> forms;
    bool notify_one = false;      // only with a single waiter
    bool under_lock = false;
    int rounds = 2000;
    int skew = 0;                 // spin between "all acknowledged" and publishing
    bool final_stop = false;      // after the last generation the stop-token waiters wait for a generation that never comes and are stopped
    int avoided = 0;
    bool has_timed() const { for (int f : forms) if (f == F_FOR_YEAR_PRED || f == F_UNTIL_YEAR_LOOP) return true; return false; }
};

static Case decode(tape_t const& tape)
{
    Tape t(tape);
    Case c;
    c.lock = static_cast<int>(t.below(L_COUNT));
    int nw = t.weighted({3, 3, 2}) + 1;
    for (int i = 0; i < nw; ++i) c.forms.push_back(t.weighted({4, 3, 2, 2, 2}));
    c.notify_one = nw == 1 && t.chance(1, 2);
    c.under_lock = t.chance(1, 2);
    c.rounds = t.pick({2000, 500, 10000, 30000});
    c.skew = t.pick({0, 0, 20, 200, 2000});
    c.final_stop = t.chance(1, 2);
    {
        // known finding F22 excluded by construction (counted): timed waits from plain OS threads
        char const* e = std::getenv("VERIF_AVOID");
        if (e && std::strstr(e, "os_thread_timed_wait"))
            for (int& f : c.forms)
                if (f == F_FOR_YEAR_PRED || f == F_UNTIL_YEAR_LOOP) { f = f == F_FOR_YEAR_PRED ? F_PRED : F_LOOP; c.avoided = 1; }
    }
    return c;
}

static std::string describe(tape_t const& tape)
{
    Case c = decode(tape);
    std::ostringstream os;
    os << "{\"user_lock\": \"" << lock_names[c.lock] << "\", \"waiter_os_threads\": [";
    for (std::size_t i = 0; i < c.forms.size(); ++i) os << (i ? ", " : "") << "\"" << form_names[c.forms[i]] << "\"";
    os << "], \"notify\": \"" << (c.notify_one ? "notify_one" : "notify_all") << (c.under_lock ? " under the user lock" : " after unlocking") << "\", \"rounds\": " << c.rounds << ", \"skew\": " << c.skew
       << ", \"final_stop_request\": " << (c.final_stop ? "true" : "false") << "}";
    return os.str();
}

struct Shared
{
    pika::condition_variable_any cv;
    long gen = 0;                                  // protected by the user lock
    std::atomic<long> published{0};                // generation whose notification has been issued completely
    std::atomic<long> notifying{0};                // generation whose notify call is in progress (0: none)
    std::atomic<long> acks{0};
    std::atomic<long> progress{0};
    std::vector<std::atomic<long>> seen;
    std::vector<std::atomic<int>> in_wait;
    std::vector<std::atomic<int>> finished;
    std::atomic<int> fail_set{0};
    std::string oracle, msg;
    std::mutex fm;
    pika::stop_source ss;
    std::atomic<int> stop_requested{0};
    explicit Shared(std::size_t n) : seen(n), in_wait(n), finished(n) {}
    void fail(char const* o, std::string m)
    {
        std::lock_guard<std::mutex> l(fm);
        if (fail_set.load()) return;
        oracle = o;
        msg = std::move(m);
        fail_set.store(1);
    }
};

static inline void spin(int n)
{
    for (volatile int k = 0; k < n; k = k + 1) {}
}

template <typename Base>
static Outcome run_with(Case const& c)
{
    using Lock = Tracked<Base>;
    std::size_t nw = c.forms.size();
    // (leaked on purpose when a waiter is stuck: it still references them)
    auto* sp = new Shared(nw);
    auto* Lp = new Lock();
    Shared& s = *sp;
    Lock& L = *Lp;
    long const R = c.rounds;
    auto const year = std::chrono::hours(24 * 365);
    std::vector<std::thread> th;
    for (std::size_t w = 0; w < nw; ++w)
        th.emplace_back([&, w] {
            tl_id = static_cast<int>(w) + 1;
            int form = c.forms[w];
            long seen = 0;
            pika::stop_token st = s.ss.get_token();
            for (;;)
            {
                bool last = seen == R;    // every generation consumed: stop-token waiters wait once more, for the stop request
                if (last && !(c.final_stop && form == F_STOKEN_PRED)) break;
                std::unique_lock<Lock> l(L);
                auto pred = [&] { return s.gen > seen; };
                s.in_wait[w].store(1);
                bool got = true;
                switch (form)
                {
                case F_LOOP: while (!pred()) s.cv.wait(l); break;
                case F_PRED: s.cv.wait(l, pred); break;
                case F_FOR_YEAR_PRED: got = s.cv.wait_for(l, year, pred); break;
                case F_UNTIL_YEAR_LOOP:
                {
                    auto dl = std::chrono::steady_clock::now() + year;
                    while (!pred())
                        if (s.cv.wait_until(l, dl) == pika::cv_status::timeout) { s.fail("timed_wait_timeout_without_deadline", "wait_until(l, now + 1 year) reported cv_status::timeout"); break; }
                    break;
                }
                default: got = s.cv.wait(l, st, pred); break;
                }
                s.in_wait[w].store(0);
                if (L.owner.load() != tl_id) s.fail("lock_not_owned_on_return", std::string(form_names[form]) + " returned without the user lock being owned by the waiter");
                if (last)
                {
                    if (got || !st.stop_requested()) s.fail("stop_wait_result", "wait(l,stop_token,pred) with a predicate that never becomes true returned " + std::to_string(got) + ", stop_requested=" + std::to_string(st.stop_requested()));
                    break;
                }
                if (form == F_FOR_YEAR_PRED && !got) s.fail("timed_wait_timeout_without_deadline", "wait_for(l, 1 year, pred) returned false");
                if (form == F_STOKEN_PRED && !got) s.fail("stop_wait_result", "wait(l,stop_token,pred) returned false although nobody requested a stop");
                if (!pred()) { s.fail("predicate_false_on_return", std::string(form_names[form]) + " returned while its predicate is false"); break; }
                seen = s.gen;
                l.unlock();
                s.seen[w].store(seen);
                s.acks.fetch_add(1);
                s.progress.fetch_add(1);
                if (s.fail_set.load()) break;
            }
            s.finished[w].store(1);
        });
    std::thread notifier([&] {
        tl_id = 100;
        for (long g = 1; g <= R && !s.fail_set.load(); ++g)
        {
            // every waiter consumed g-1 (each ack covers at least one generation; waiters that were late may skip ahead, so wait on seen)
            for (std::size_t w = 0; w < nw; ++w)
                while (s.seen[w].load() < g - 1 && !s.fail_set.load()) {}
            spin(c.skew);
            {
                std::unique_lock<Lock> l(L);
                s.gen = g;
                if (c.under_lock) { s.notifying.store(g); if (c.notify_one) s.cv.notify_one(); else s.cv.notify_all(); s.notifying.store(0); }
            }
            if (!c.under_lock) { s.notifying.store(g); if (c.notify_one) s.cv.notify_one(); else s.cv.notify_all(); s.notifying.store(0); }
            s.published.store(g);
            s.progress.fetch_add(1);
        }
        if (c.final_stop)
        {
            for (std::size_t w = 0; w < nw; ++w)
                while (s.seen[w].load() < R && !s.fail_set.load()) {}
            spin(c.skew);
            s.stop_requested.store(1);
            s.ss.request_stop();
            s.progress.fetch_add(1);
        }
    });
    // monitor
    long last = -1;
    auto since = std::chrono::steady_clock::now();
    bool stuck = false;
    for (;;)
    {
        bool all = true;
        for (std::size_t w = 0; w < nw; ++w) all &= s.finished[w].load() == 1;
        if (all) break;
        if (s.fail_set.load())
        {
            // let everybody run into the failure flag; a waiter blocked for good stays blocked
            auto t1 = std::chrono::steady_clock::now();
            while (std::chrono::steady_clock::now() - t1 < std::chrono::seconds(2))
            {
                all = true;
                for (std::size_t w = 0; w < nw; ++w) all &= s.finished[w].load() == 1;
                if (all) break;
                std::this_thread::sleep_for(std::chrono::milliseconds(20));
            }
            stuck = !all;
            break;
        }
        long p = s.progress.load();
        auto now = std::chrono::steady_clock::now();
        if (p != last) { last = p; since = now; }
        else if (now - since > std::chrono::seconds(10))
        {
            // nothing moved for 10 s: who is where?
            long g = s.published.load();
            std::string d = (g == 0 ? std::string("no generation has been notified completely yet") : "generation " + std::to_string(g) + " of " + std::to_string(R) + " was published under the user lock and its " + (c.notify_one ? "notify_one" : "notify_all") +
                " returned") + (s.stop_requested.load() ? "; request_stop() was called" : "") + "; ";
            bool lost = false;
            for (std::size_t w = 0; w < nw; ++w)
            {
                d += "waiter" + std::to_string(w) + " [" + form_names[c.forms[w]] + "] seen=" + std::to_string(s.seen[w].load()) + (s.in_wait[w].load() ? " inside wait" : "") + (s.finished[w].load() ? " finished" : "") + "; ";
                if (!s.finished[w].load() && s.in_wait[w].load() && (s.seen[w].load() < g || s.stop_requested.load())) lost = true;
            }
            if (long ng = s.notifying.load())
                s.fail("notify_never_returns", std::string(c.notify_one ? "notify_one()" : "notify_all()") + " for generation " + std::to_string(ng) + " has not returned for 10 s and nothing else moves: " + d + "(user lock " + lock_names[c.lock] + ", plain OS threads)");
            else if (lost) s.fail("lost_notification", "no thread made progress for 10 s: " + d + "(user lock " + lock_names[c.lock] + ", plain OS threads)");
            else s.fail("no_progress", "no thread made progress for 10 s but no waiter is inside a wait that should have been woken: " + d);
            stuck = true;
            break;
        }
        std::this_thread::sleep_for(std::chrono::milliseconds(5));
    }
    Outcome out;
    if (stuck)
    {
        for (auto& x : th) x.detach();
        notifier.detach();
    }
    else
    {
        for (auto& x : th) x.join();
        notifier.join();
    }
    if (s.fail_set.load())
    {
        std::lock_guard<std::mutex> l(s.fm);
        if (s.oracle == "no_progress") { out.kind = Outcome::INCONCLUSIVE; out.msg = s.msg; }
        else out = Outcome::fail(s.oracle, s.msg);
    }
    out.counters["generations_published"] = s.published.load();
    out.counters["waits_acknowledged"] = s.acks.load();
    out.counters["avoided"] = c.avoided;
    out.nontrivial = nw >= 2 || c.rounds >= 2000;
    out.tags.push_back(std::string("lock:") + lock_names[c.lock]);
    for (int f : c.forms) out.tags.push_back(std::string("form:") + form_names[f]);
    std::sort(out.tags.begin(), out.tags.end());
    out.tags.erase(std::unique(out.tags.begin(), out.tags.end()), out.tags.end());
    if (!stuck) { delete sp; delete Lp; }
    return out;
}

static Outcome run(tape_t const& tape)
{
    Case c = decode(tape);
    switch (c.lock)
    {
    case L_STD_MUTEX: return run_with<std::mutex>(c);
    case L_PIKA_SPINLOCK: return run_with<pika::concurrency::detail::spinlock>(c);
    case L_TAS: return run_with<TasLock>(c);
    default: return run_with<TasYieldLock>(c);
    }
}

int main(int argc, char** argv)
{
    Target T;
    T.property = "C07";
    T.engine = "E-stress";
    T.forked = true;
    T.tape_scale = 1;
    T.child_timeout_s = 120;
    T.describe = describe;
    T.run = run;
    T.signature = [](tape_t const& tape, Outcome const& o) {
        Case c = decode(tape);
        return std::string("{\"oracle\": ") + jstr(o.oracle) + ", \"threads\": \"real\", \"timed_waiter_on_os_thread\": " + (c.has_timed() ? "true" : "false") + "}";
    };
    return target_main(argc, argv, T);
}
