// C07 (stop-token waits) — condition_variable_any::wait / wait_for / wait_until with a stop_token: a stop
// request must wake exactly the waits that listen to it, other waiters stay blocked until THEIR predicate
// or THEIR token fires, and nobody stays blocked once its own token was stopped.   Engine: E-vt.
// Unlike C07_condvar_vt (one shared source, every predicate eventually true) a waiter here may have a
// predicate that never becomes true, so that the stop request is its only way out, and waiters listen to
// different stop sources.
#include "vt.hpp"

#include <pika/concurrency/spinlock.hpp>
#include <pika/condition_variable.hpp>
#include <pika/stop_token.hpp>

using namespace vf;

struct TrackedLock
{
    pika::concurrency::detail::spinlock sp;
    int owner = -1;
    void lock()
    {
        sp.lock();
        owner = vt::self();
    }
    bool try_lock()
    {
        if (!sp.try_lock()) return false;
        owner = vt::self();
        return true;
    }
    void unlock()
    {
        owner = -1;
        sp.unlock();
        vt::step();
    }
};

enum Form { F_WAIT, F_WAIT_FOR_INF, F_WAIT_UNTIL_FINITE, F_COUNT };
static char const* const form_names[] = {"wait(l,stoken,pred)", "wait_for(l,stoken,inf,pred)", "wait_until(l,stoken,finite,pred)"};

struct Waiter
{
    int form = 0, source = 0;
    int target = 1;    // generation that makes the predicate true; gens+1 = never
    int pre_steps = 0;
};
struct StopEv
{
    int after_gen = 0, source = 0, by = 0;    // by: 0 the notifier thread, 1 the separate stopper thread
};
struct Case
{
    int gens = 1, nsrc = 1;
    std::vector<Waiter> ws;
    std::vector<bool> under_lock;
    std::vector<StopEv> stops;    // every source is stopped exactly once
    bool avoid_stale = false;
};

static Case decode(Tape& t)
{
    Case c;
    {
        char const* e = std::getenv("VERIF_AVOID");
        c.avoid_stale = e && std::strstr(e, "stale_wakeup_timed");
    }
    int nw = 2 + static_cast<int>(t.below(3));
    c.gens = static_cast<int>(t.below(3));    // 0: nothing is ever published, stop requests are the only wake-ups
    c.nsrc = 1 + static_cast<int>(t.below(3));
    for (int w = 0; w < nw; ++w)
    {
        Waiter x;
        x.source = static_cast<int>(t.below(static_cast<std::uint32_t>(c.nsrc)));
        x.form = t.weighted({4, 2, 2});
        x.target = t.chance(1, 2) ? c.gens + 1 : 1 + static_cast<int>(t.below(static_cast<std::uint32_t>(std::max(1, c.gens))));
        if (c.gens == 0) x.target = 1;    // never
        x.pre_steps = static_cast<int>(t.below(3));
        c.ws.push_back(x);
    }
    for (int g = 0; g < c.gens; ++g) c.under_lock.push_back(t.chance(1, 2));
    // stop order: a generated permutation of the sources, each at a generated point
    std::vector<int> order;
    for (int i = 0; i < c.nsrc; ++i) order.push_back(i);
    for (int i = c.nsrc - 1; i > 0; --i) std::swap(order[static_cast<std::size_t>(i)], order[t.below(static_cast<std::uint32_t>(i + 1))]);
    for (int src : order)
    {
        StopEv e;
        e.source = src;
        e.after_gen = static_cast<int>(t.below(static_cast<std::uint32_t>(c.gens + 1)));
        e.by = t.chance(1, 2) ? 1 : 0;
        c.stops.push_back(e);
    }
    return c;
}

static std::string describe(tape_t const& tape)
{
    Tape t(tape);
    Case c = decode(t);
    std::ostringstream os;
    os << "{\"waiters\": [";
    for (std::size_t w = 0; w < c.ws.size(); ++w)
        os << (w ? ", " : "") << "\"" << form_names[c.ws[w].form] << " token" << c.ws[w].source << " pred@" << (c.ws[w].target > c.gens ? std::string("never") : "gen" + std::to_string(c.ws[w].target)) << "\"";
    os << "], \"generations\": " << c.gens << ", \"stops\": [";
    for (std::size_t i = 0; i < c.stops.size(); ++i)
        os << (i ? ", " : "") << "\"source" << c.stops[i].source << " after gen" << c.stops[i].after_gen << (c.stops[i].by ? " by stopper" : " by notifier") << "\"";
    os << "], \"schedule_tape_from\": " << t.pos << "}";
    return os.str();
}

static Outcome run(tape_t const& tape)
{
    Tape t(tape);
    Case c = decode(t);
    vt::install_vt_hook();
    vt::Sched s;
    s.discard_on_stale_timed = c.avoid_stale;    // (F12 shape: run not judged; timeouts race notifications freely otherwise)
    TrackedLock L;
    pika::condition_variable_any cv;
    std::vector<pika::stop_source> src(static_cast<std::size_t>(c.nsrc));
    int gen = 0;          // protected by L
    int gen_seen = 0;     // plain copy for the stopper thread's ordering (read at decision points only)
    long long blocked = 0, woken_by_stop_only = 0, foreign_stop_while_waiting = 0;
    std::string fail, fail_oracle, fail_shape;
    auto set_fail = [&](char const* o, std::string m) {
        if (fail.empty()) { fail_oracle = o; fail = std::move(m); }
    };
    std::vector<int> waiting(c.ws.size(), 0);

    auto do_stops = [&](int g, int by) {
        for (auto const& e : c.stops)
            if (e.after_gen == g && e.by == by)
            {
                for (std::size_t w = 0; w < c.ws.size(); ++w)
                    if (waiting[w] && c.ws[w].source != e.source) ++foreign_stop_while_waiting;
                src[static_cast<std::size_t>(e.source)].request_stop();
                vt::step();
            }
    };
    // notifier
    s.add([&] {
        do_stops(0, 0);
        for (int g = 1; g <= c.gens; ++g)
        {
            {
                std::unique_lock<TrackedLock> l(L);
                gen = g;
                if (c.under_lock[static_cast<std::size_t>(g - 1)]) cv.notify_all();
            }
            if (!c.under_lock[static_cast<std::size_t>(g - 1)]) cv.notify_all();
            gen_seen = g;
            vt::step();
            do_stops(g, 0);
        }
    });
    // stopper: issues its stop requests once the generation they follow was published
    s.add([&] {
        for (int g = 0; g <= c.gens; ++g)
        {
            while (gen_seen < g) s.decision(true);    // spin-wait: eligible again only after somebody else made progress
            do_stops(g, 1);
        }
    });
    for (std::size_t w = 0; w < c.ws.size(); ++w)
    {
        s.add([&, w] {
            Waiter const& x = c.ws[w];
            for (int k = 0; k < x.pre_steps; ++k) vt::step();
            std::unique_lock<TrackedLock> l(L);
            auto pred = [&] { return gen >= x.target; };
            auto& my = src[static_cast<std::size_t>(x.source)];
            long long sw = s.switches, to0 = s.timeouts_fired;
            waiting[w] = 1;
            bool r = false;
            switch (x.form)
            {
            case F_WAIT: r = cv.wait(l, my.get_token(), pred); break;
            case F_WAIT_FOR_INF: r = cv.wait_for(l, my.get_token(), std::chrono::hours(24 * 365), pred); break;
            default: r = cv.wait_until(l, my.get_token(), std::chrono::steady_clock::now() + std::chrono::milliseconds(50), pred); break;
            }
            waiting[w] = 0;
            if (s.switches != sw) ++blocked;
            if (L.owner != vt::self()) set_fail("lock_not_owned_on_return", std::string(form_names[x.form]) + " returned without owning the user lock");
            if (r != pred()) set_fail("stop_wait_result", std::string(form_names[x.form]) + " returned " + std::to_string(r) + " but pred() is " + std::to_string(pred()));
            if (!r && !my.stop_requested())
            {
                bool timed_out = x.form == F_WAIT_UNTIL_FINITE && s.timeouts_fired != to0;
                if (!timed_out)
                {
                    if (x.form == F_WAIT)
                        set_fail("stop_wait_early", "wait(l,stoken,pred) returned false although neither its predicate holds nor its own token was stopped");
                    else
                    {
                        set_fail("timed_wait_timeout_without_deadline", std::string(form_names[x.form]) + " returned false although its predicate is false, its own token was not stopped and no deadline passed");
                        fail_shape = s.switches != sw ? "slept" : "did_not_sleep";
                    }
                }
            }
            if (!r && my.stop_requested() && s.switches != sw) ++woken_by_stop_only;
        });
    }
    s.diagnose = [&] {
        std::string d = "generation " + std::to_string(gen) + "/" + std::to_string(c.gens) + "; stop requested on sources:";
        for (int i = 0; i < c.nsrc; ++i) d += std::string(" ") + (src[static_cast<std::size_t>(i)].stop_requested() ? "yes" : "no");
        d += "; still inside their wait:";
        for (std::size_t w = 0; w < c.ws.size(); ++w)
            if (waiting[w]) d += " waiter" + std::to_string(w) + "(token" + std::to_string(c.ws[w].source) + (c.ws[w].target > c.gens ? ",pred never" : ",pred@gen" + std::to_string(c.ws[w].target)) + ")";
        d += " -- every source is stopped by the end, so a waiter that is still blocked missed its stop request or a notify_all";
        return d;
    };
    s.run(t);
    if (s.must_discard()) { Outcome dsc; dsc.kind = Outcome::DISCARD; dsc.counters["avoided"] = 1; return dsc; }
    Outcome out;
    if (!fail.empty())
    {
        out = Outcome::fail(fail_oracle, fail);
        if (!fail_shape.empty()) out.tags.push_back("sig:" + fail_shape);
    }
    out.counters["decisions"] = s.decisions;
    out.counters["switches"] = s.switches;
    out.counters["waits_that_blocked"] = blocked;
    out.counters["waits_released_by_stop_only"] = woken_by_stop_only;
    out.counters["foreign_stop_while_waiting"] = foreign_stop_while_waiting;
    out.counters["timeouts_fired"] = s.timeouts_fired;
    out.counters["avoided"] = s.excluded_timeout_choices;
    out.nontrivial = woken_by_stop_only > 0 && foreign_stop_while_waiting > 0;
    if (woken_by_stop_only) out.tags.push_back("saw:released_by_stop_request_only");
    if (foreign_stop_while_waiting) out.tags.push_back("saw:other_token_stopped_while_waiting");
    if (s.timeouts_fired) out.tags.push_back("saw:timeout_fired");
    out.tags.push_back("sources:" + std::to_string(c.nsrc));
    return out;
}

int main(int argc, char** argv)
{
    Target T;
    T.property = "C07";
    T.engine = "E-vt";
    T.forked = true;
    T.tape_scale = 3;
    T.child_timeout_s = 30;
    T.describe = describe;
    T.run = run;
    T.signature = [](tape_t const&, Outcome const& o) {
        std::string shape;
        for (auto const& tg : o.tags) if (tg.rfind("sig:", 0) == 0) shape = ", \"shape\": " + jstr(tg.substr(4));
        return std::string("{\"oracle\": ") + jstr(o.oracle) + shape + "}";
    };
    return target_main(argc, argv, T);
}
