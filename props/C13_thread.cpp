// C13 — pika::thread / jthread: join waits for completion and always returns; errors for double/self
// join; interruption only at interruption points while enabled; jthread destructor stops and joins.
// Engine: E-rt.
#include "rt.hpp"

#include <pika/latch.hpp>
#include <pika/semaphore.hpp>
#include <pika/stop_token.hpp>
#include <pika/threading/jthread.hpp>
#include <optional>

using namespace vf;
using namespace vf::rt;

enum Scen { SC_JOIN, SC_DETACH, SC_SELF_JOIN, SC_INTERRUPT, SC_JTHREAD, SC_COUNT };
static char const* const scen_names[] = {"join", "detach", "self_join", "interrupt", "jthread"};
enum BodyOp { B_SPIN, B_YIELD, B_IPOINT, B_WAIT_EVENT, B_DISABLE_BEGIN, B_DISABLE_END, B_SPAWN_JOIN, B_SLEEP };
static char const* const bop_names[] = {"spin", "yield", "interruption_point", "wait_event", "disable{", "}", "spawn+join_child", "sleep"};

static char const* const jform_names[] = {"constructed in place", "default-constructed, then move-assigned from jthread(f)", "move-constructed from another handle",
    "default-constructed, swap()ped with a running one; request_stop() through the handle, then destroyed"};
struct Scenario
{
    int kind = 0;
    std::vector<int> body;
    int ctrl_delay = 0;       // controller delay before join/interrupt/destroy (code)
    int ctrl_hint = -1;
    bool second_join = false;
    int jform = 0;
    bool exit_callback = false;
    int signal_delay = 0;     // delay before the controller signals the body's events
};
struct Case
{
    RtConfig cfg;
    std::vector<Scenario> sc;
    int avoided = 0;
};

static Case decode(tape_t const& tape)
{
    Tape t(tape);
    Case c;
    c.cfg = decode_config(t, {S_THREAD_JOIN, S_EXIT_CALLBACKS, S_EXIT_CALLBACK_CALL, S_EXIT_CALLBACK_CALL, S_SL_AFTER_RUN, S_SL_AFTER_STORE, S_DO_YIELD, S_STS_BEFORE_CAS,
                                 S_STS_BEFORE_SCHEDULE, S_SET_ACTIVE_STATE});
    c.cfg.workers = t.weighted({3, 4, 2, 2, 1, 1, 1, 1}) + 1;
    {
        // known finding F10 excluded by construction (counted): pika::thread on the shared-priority scheduler
        char const* e = std::getenv("VERIF_AVOID");
        if (e && std::strstr(e, "shared_priority_thread") && c.cfg.policy == 7) { c.cfg.policy = 0; c.avoided = 1; }
    }
    bool avoid_abort = false;
    {
        char const* e = std::getenv("VERIF_AVOID");
        avoid_abort = e && std::strstr(e, "abort_wake_disabled");
    }
    int n = t.weighted({3, 3, 2, 2, 1, 1, 1, 1}) + 1;
    for (int i = 0; i < n; ++i)
    {
        Scenario s;
        s.kind = t.weighted({5, 2, 1, 3, 2});
        int nb = t.weighted({3, 3, 3, 2, 2, 1, 1});
        bool in_disable = false;
        for (int k = 0; k < nb; ++k)
        {
            int op = t.weighted({3, 4, 2, 2, 1, 0, 1, 1});
            if (s.kind != SC_INTERRUPT && (op == B_IPOINT || op == B_DISABLE_BEGIN)) op = B_YIELD;
            if (s.kind == SC_JTHREAD && op == B_WAIT_EVENT) op = B_YIELD;
            if (avoid_abort && in_disable && (op == B_WAIT_EVENT || op == B_SPAWN_JOIN)) { op = B_SPIN; ++c.avoided; }
            if (op == B_DISABLE_BEGIN)
            {
                if (in_disable) { op = B_DISABLE_END; in_disable = false; }
                else in_disable = true;
            }
            s.body.push_back(op);
        }
        if (in_disable) s.body.push_back(B_DISABLE_END);
        s.ctrl_delay = static_cast<int>(t.below(6));
        s.ctrl_hint = t.chance(1, 2) ? static_cast<int>(t.below(static_cast<std::uint32_t>(c.cfg.workers))) : -1;
        s.second_join = t.chance(1, 3);
        bool form_bit = t.chance(1, 2);
        // how a jthread handle gets its thread: built in place, move-assigned into a default-constructed handle (declare first, start
        // later), move-constructed from another handle, or swapped in (then stopped through the handle before it is destroyed)
        s.jform = s.kind == SC_JTHREAD ? (s.second_join ? 1 : 0) + (form_bit ? 2 : 0) : 0;
        s.exit_callback = false;    // exit callbacks are an internal mechanism used only by join itself: not probed
        s.signal_delay = static_cast<int>(t.below(5));
        c.sc.push_back(std::move(s));
    }
    return c;
}

static std::string describe(tape_t const& tape)
{
    Case c = decode(tape);
    std::ostringstream os;
    os << "{\"config\": " << c.cfg.describe() << ", \"scenarios\": [";
    for (std::size_t i = 0; i < c.sc.size(); ++i)
    {
        auto const& s = c.sc[i];
        os << (i ? ", " : "") << "{\"kind\": \"" << scen_names[s.kind] << "\", \"body\": \"";
        for (int op : s.body) os << bop_names[op] << " ";
        os << "\", \"ctrl_delay\": " << s.ctrl_delay << ", \"ctrl_hint\": " << s.ctrl_hint << ", \"second_join\": " << (s.second_join ? "true" : "false")
           << ", \"exit_callback\": " << (s.exit_callback ? "true" : "false") << ", \"signal_delay\": " << s.signal_delay;
        if (s.kind == SC_JTHREAD) os << ", \"handle\": \"" << jform_names[s.jform] << "\"";
        os << "}";
    }
    os << "]}";
    return os.str();
}

static void delay(int code)
{
    switch (code)
    {
    case 0: break;
    case 1: { volatile int x = 0; for (int k = 0; k < 300; ++k) x = x + 1; break; }
    case 2: { volatile int x = 0; for (int k = 0; k < 30000; ++k) x = x + 1; break; }
    case 3: pika::this_thread::yield(); break;
    case 4: for (int k = 0; k < 5; ++k) pika::this_thread::yield(); break;
    case 5: for (int k = 0; k < 20; ++k) pika::this_thread::yield(); break;    // (timed suspension of tasks is not supported by this pika)
    }
}

struct ScenRt
{
    Scenario spec;
    std::atomic<int> body_entered{0}, body_finished{0}, exit_cb_ran{0}, interrupted_at{-1}, interrupt_ok{0}, interrupt_issued{0};
    std::atomic<int> surfaced_enabled{-1}, surfaced_kind{-1};
    std::atomic<int> stop_seen{0};
    std::atomic<int> done{0};
    std::atomic<int> not_joinable_fresh{0};
    pika::counting_semaphore<> ev{0};
    std::atomic<int> waits_in_body{0};
    std::atomic<int> missed_delivery{0};
    pika::thread* self_handle = nullptr;
    pika::latch handle_ready{1};
    std::atomic<int> self_join_reported{0};
    std::atomic<int> child_done{0};
};

static std::atomic<long long> g_join_accepted{0}, g_joins{0};

// the body shared by all scenarios; for SC_INTERRUPT it tracks where thread_interrupted surfaces
static void run_body(ScenRt& r, pika::stop_token st = pika::stop_token())
{
    r.body_entered.fetch_add(1);
    if (r.spec.exit_callback)
    {
        pika::threads::detail::add_thread_exit_callback(
            pika::threads::detail::get_self_id(), pika::util::detail::function<void()>([&r] { r.exit_cb_ran.fetch_add(1); }));
    }
    if (r.spec.kind == SC_SELF_JOIN)
    {
        r.handle_ready.wait();
        try { r.self_handle->join(); }
        catch (pika::exception const& e)
        {
            if (e.get_error() == pika::error::thread_resource_error) r.self_join_reported.store(1);
            else r.self_join_reported.store(2);
        }
    }
    std::vector<std::unique_ptr<pika::this_thread::disable_interruption>> dis;
    int idx = 0;
    try
    {
        for (int op : r.spec.body)
        {
            bool is_ipoint = op == B_YIELD || op == B_IPOINT || op == B_WAIT_EVENT || op == B_SLEEP || op == B_SPAWN_JOIN;
            bool enabled = dis.empty();
            // delivery clause: a request that was accepted before this enabled interruption point started must surface here
            bool must_deliver = r.spec.kind == SC_INTERRUPT && is_ipoint && enabled && r.interrupt_ok.load() == 1 && op != B_SPAWN_JOIN && op != B_WAIT_EVENT;    // (a wait that does not block is no interruption point)
            try
            {
                switch (op)
                {
                case B_SPIN: { volatile int x = 0; for (int k = 0; k < 2000; ++k) x = x + 1; break; }
                case B_YIELD: pika::this_thread::yield(); break;
                case B_IPOINT: pika::this_thread::interruption_point(); break;
                case B_WAIT_EVENT: r.waits_in_body.fetch_add(1); r.ev.acquire(); break;
                case B_DISABLE_BEGIN: dis.push_back(std::make_unique<pika::this_thread::disable_interruption>()); break;
                case B_DISABLE_END: if (!dis.empty()) dis.pop_back(); break;
                case B_SPAWN_JOIN:
                {
                    pika::thread child([&r] { pika::this_thread::yield(); r.child_done.fetch_add(1); });
                    if (child.joinable())
                    {
                        // join() is an interruption point: do not let a joinable handle be destroyed by the unwinding
                        try { child.join(); }
                        catch (pika::thread_interrupted const&) { if (child.joinable()) child.detach(); throw; }
                    }
                    else r.not_joinable_fresh.fetch_add(1);
                    break;
                }
                case B_SLEEP: pika::execution::this_thread::detail::yield_k(40, "verif"); break;    // yield with back-off (pending_boost / pending)
                }
            }
            catch (pika::thread_interrupted const&)
            {
                r.interrupted_at.store(idx);
                r.surfaced_kind.store(op);
                r.surfaced_enabled.store(enabled ? 1 : 0);
                throw;
            }
            catch (pika::exception const& e)
            {
                if (e.get_error() == pika::error::yield_aborted)
                {
                    // the interrupt's abort-wake hit a wait: with interruption disabled this must not end the thread
                    if (!enabled)
                        fail_now("wait_aborted_while_interruption_disabled", std::string("op '") + bop_names[op] +
                                "' inside a disable_interruption scope was aborted (yield_aborted) by an interruption request: the request was delivered while interruption was disabled and ended the thread");
                    fail_now("wait_aborted_instead_of_interrupted", std::string("op '") + bop_names[op] + "' threw yield_aborted with interruption enabled");
                }
                throw;
            }
            if (must_deliver) r.missed_delivery.store(idx + 1);
            ++idx;
            G().progress.fetch_add(1);
        }
    }
    catch (pika::thread_interrupted const&)
    {
        dis.clear();
        throw;    // pika::thread swallows it: the thread ends here
    }
    if (r.spec.kind == SC_JTHREAD)
    {
        while (!st.stop_requested()) pika::this_thread::yield();
        r.stop_seen.store(1);
    }
    r.body_finished.fetch_add(1);
}

static void controller(ScenRt& r)
{
    Scenario const& s = r.spec;
    int nwaits = 0;
    for (int op : s.body) nwaits += op == B_WAIT_EVENT;
    auto signal_events = [&] {
        delay(s.signal_delay);
        r.ev.release(nwaits);
    };
    switch (s.kind)
    {
    case SC_JOIN:
    case SC_DETACH:
    case SC_SELF_JOIN:
    case SC_INTERRUPT:
    {
        pika::thread th([&r] { run_body(r); });
        if (!th.joinable())
        {
            // freshly constructed thread must be joinable
            fail_now("fresh_thread_not_joinable", "a freshly constructed pika::thread reports joinable()==false (join() would throw invalid_status)");
        }
        if (s.kind == SC_SELF_JOIN)
        {
            r.self_handle = &th;
            r.handle_ready.count_down(1);
        }
        if (s.kind == SC_DETACH)
        {
            signal_events();
            th.detach();
            if (th.joinable()) fail_now("joinable_after_detach", "joinable() is true after detach()");
            break;
        }
        // interrupt() issued by a second task while this task is (about to be) blocked inside join() on the same handle
        // (derived from an existing draw: older replay tapes keep their meaning)
        bool concurrent_interrupt = s.kind == SC_INTERRUPT && (s.signal_delay % 2) == 1;
        std::atomic<int> helper_go{0};
        // (blocking wait, not a yield loop: with a small pika.thread_queue.max_thread_count a worker that always finds a
        // yielding task in its queue never converts staged tasks, so polling for a not yet created task can livelock)
        pika::counting_semaphore<> helper_done{0};
        if (concurrent_interrupt)
        {
            ex::execute(ex::thread_pool_scheduler{}, [&] {
                while (!helper_go.load()) pika::this_thread::yield();
                delay(s.ctrl_delay);
                try
                {
                    BoundedCall bc("thread::interrupt() called from a second task while another task is inside join() on the same pika::thread");
                    r.interrupt_issued.store(1);
                    th.interrupt();
                    r.interrupt_ok.store(1);
                }
                catch (pika::exception const& e)
                {
                    // refused (interruption disabled) or too late (the handle was already joined: null id)
                    if (e.get_error() != pika::error::thread_not_interruptable && e.get_error() != pika::error::null_thread_id)
                        fail_now("interrupt_error", std::string("interrupt() threw an unexpected error: ") + e.what());
                    r.interrupt_ok.store(2);
                }
                signal_events();
                helper_done.release();
            });
            helper_go.store(1);
        }
        else if (s.kind == SC_INTERRUPT)
        {
            delay(s.ctrl_delay);
            try
            {
                r.interrupt_issued.store(1);
                th.interrupt();
                r.interrupt_ok.store(1);
            }
            catch (pika::exception const& e)
            {
                if (e.get_error() != pika::error::thread_not_interruptable)
                    fail_now("interrupt_error", std::string("interrupt() threw an unexpected error: ") + e.what());
                r.interrupt_ok.store(2);    // refused: target had interruption disabled
            }
            signal_events();
        }
        else
        {
            signal_events();
            delay(s.ctrl_delay);
        }
        g_joins.fetch_add(1);
        th.join();
        if (concurrent_interrupt) helper_done.acquire();
        // join returned: the body must be over (finished normally or ended by interruption) ...
        bool ended = r.body_finished.load() == 1 || r.interrupted_at.load() >= 0;
        if (!ended) fail_now("join_early", "join() returned but the thread function has neither returned nor been interrupted");
        if (s.exit_callback && r.exit_cb_ran.load() != 1)
            fail_now("join_before_exit_callbacks", "join() returned but the thread's exit callback ran " + std::to_string(r.exit_cb_ran.load()) + " times");
        if (th.joinable()) fail_now("joinable_after_join", "joinable() is true after join()");
        if (s.second_join)
        {
            bool reported = false;
            try { th.join(); }
            catch (pika::exception const& e) { reported = e.get_error() == pika::error::invalid_status; }
            if (!reported) fail_now("double_join_not_reported", "second join() was not reported as invalid_status");
        }
        if (s.kind == SC_SELF_JOIN && r.self_join_reported.load() != 1)
            fail_now("self_join_not_reported", "self join result code " + std::to_string(r.self_join_reported.load()) + " (expected thread_resource_error)");
        if (s.kind == SC_INTERRUPT)
        {
            int at = r.interrupted_at.load();
            if (at >= 0)
            {
                int k = r.surfaced_kind.load();
                bool ip = k == B_YIELD || k == B_IPOINT || k == B_WAIT_EVENT || k == B_SLEEP || k == B_SPAWN_JOIN;
                if (!ip) fail_now("interrupt_not_at_point", std::string("thread_interrupted surfaced inside op '") + bop_names[k] + "' which is not an interruption point");
                if (r.surfaced_enabled.load() != 1) fail_now("interrupt_while_disabled", "thread_interrupted surfaced while interruption was disabled");
                if (r.interrupt_issued.load() != 1) fail_now("interrupt_without_request", "thread_interrupted surfaced without any interrupt request");
            }
            else if (r.body_finished.load() != 1) fail_now("join_early", "interrupt scenario: body neither finished nor interrupted");
            if (r.missed_delivery.load() > 0)
                fail_now("interrupt_not_delivered", "an accepted interruption request was not delivered at the enabled interruption point op #" + std::to_string(r.missed_delivery.load() - 1));
        }
        else
        {
            if (r.interrupted_at.load() >= 0)
                fail_now("interrupt_without_request", std::string("a thread that nobody interrupted was ended by thread_interrupted at op '") + bop_names[r.surfaced_kind.load()] + "'");
            if (r.body_finished.load() != 1) fail_now("join_early", "join() returned before the thread function returned");
        }
        break;
    }
    case SC_JTHREAD:
    {
        {
            auto f = [&r](pika::stop_token st) { run_body(r, st); };
            using F = decltype(f);
            std::optional<pika::jthread> other;
            std::optional<pika::jthread> jt;
            switch (s.jform)
            {
            // (pika::jthread does not compile with an lvalue callable: copies are handed over as rvalues)
            case 0: jt.emplace(F(f)); break;
            case 1: jt.emplace(); *jt = pika::jthread(F(f)); break;
            case 2: other.emplace(F(f)); jt.emplace(std::move(*other)); break;
            default: other.emplace(F(f)); jt.emplace(); jt->swap(*other); break;
            }
            if (!jt->joinable()) fail_now("jthread_handle_lost_thread", std::string("a jthread handle (") + jform_names[s.jform] + ") that owns a running thread reports joinable()==false");
            if (other && other->joinable()) fail_now("jthread_handle_lost_thread", std::string("the moved-from / swapped-out jthread handle still reports joinable() (") + jform_names[s.jform] + ")");
            delay(s.ctrl_delay);
            if (s.jform == 3)
            {
                if (!jt->request_stop()) fail_now("jthread_request_stop", "request_stop() through the handle that owns the running thread returned false (nobody else requested a stop)");
                if (!jt->get_stop_token().stop_requested()) fail_now("jthread_request_stop", "get_stop_token() of the handle does not see the stop request made through the same handle");
            }
            // destructor: request_stop + join
            BoundedCall bc(std::string("~jthread() [") + jform_names[s.jform] + "]: the destructor requests stop and joins; the thread function returns as soon as its stop_token reports the request");
            jt.reset();
            other.reset();
        }
        if (r.body_finished.load() != 1 || r.stop_seen.load() != 1)
            fail_now("jthread_dtor_early", "jthread destructor returned but body_finished=" + std::to_string(r.body_finished.load()) + " stop_seen=" + std::to_string(r.stop_seen.load()));
        break;
    }
    }
    r.done.store(1);
    G().progress.fetch_add(1);
}

static Outcome run(tape_t const& tape)
{
    Case c = decode(tape);
    restrict_cpus(c.cfg.cpus);
    install_hook(c.cfg);
    G().user_hook = [](int site, void const*, std::uint64_t, std::uint64_t) {
        if (site == S_THREAD_JOIN) g_join_accepted.fetch_add(1);
    };
    start_runtime(c.cfg);
    std::vector<std::unique_ptr<ScenRt>> rs;
    for (auto const& s : c.sc)
    {
        auto r = std::make_unique<ScenRt>();
        r->spec = s;
        rs.push_back(std::move(r));
    }
    G().diagnose = [&] {
        std::ostringstream os;
        for (std::size_t i = 0; i < rs.size(); ++i)
            if (!rs[i]->done.load())
                os << "scenario " << i << " (" << scen_names[rs[i]->spec.kind] << ") not done: body_entered=" << rs[i]->body_entered.load()
                   << " body_finished=" << rs[i]->body_finished.load() << " interrupted_at=" << rs[i]->interrupted_at.load() << "; ";
        return os.str();
    };
    G().livelock_after_samples = 250;    // 10 s of full-speed activations without a single body op / scenario finishing
    Quiescence q;
    q.start();
    for (auto& up : rs)
    {
        ScenRt* r = up.get();
        ex::thread_pool_scheduler sched{};
        auto sc = sched;
        if (r->spec.ctrl_hint >= 0) sc = ex::with_hint(sc, pika::execution::thread_schedule_hint(static_cast<std::int16_t>(r->spec.ctrl_hint)));
        ex::execute(sc, [r] {
            try { controller(*r); }
            catch (std::exception const& e) { fail_now("unexpected_exception", std::string("controller threw: ") + e.what()); }
        });
    }
    {
        MainWaiting mw;
        pika::wait();
    }
    Outcome out;
    for (std::size_t i = 0; i < rs.size() && out.kind == Outcome::PASS; ++i)
    {
        auto& r = *rs[i];
        if (!r.done.load()) out = Outcome::fail("scenario_incomplete", "scenario " + std::to_string(i) + " did not complete although wait() returned");
        else if (r.body_entered.load() != 1) out = Outcome::fail("body_runs", "thread body entered " + std::to_string(r.body_entered.load()) + " times");
        else if (r.spec.kind != SC_INTERRUPT && r.interrupted_at.load() >= 0) out = Outcome::fail("interrupt_without_request", "a thread that nobody interrupted was ended by thread_interrupted");
        else if (r.spec.kind == SC_DETACH && r.body_finished.load() != 1) out = Outcome::fail("detached_body_lost", "detached thread body did not finish before wait() returned");
    }
    q.enter_stop_mode([] { return true; });
    if (out.kind == Outcome::PASS) stop_runtime();
    q.finish();
    add_monitor_counters(out);
    long long joins = g_joins.load(), acc = g_join_accepted.load();
    out.counters["joins"] = joins;
    out.counters["avoided"] = c.avoided;
    out.counters["joins_suspended"] = acc;
    bool refused_path = joins > acc;
    bool interrupted = false;
    for (auto& r : rs) interrupted |= r->interrupted_at.load() >= 0;
    out.nontrivial = (acc > 0 && (refused_path || G().active_retry.load() > 0)) || interrupted;
    out.tags.push_back(std::string("policy:") + policies[c.cfg.policy]);
    for (auto& r : rs) out.tags.push_back(std::string("scenario:") + scen_names[r->spec.kind]);
    if (acc > 0) out.tags.push_back("join_path:suspended");
    if (refused_path) out.tags.push_back("join_path:target_already_done");
    if (G().active_retry.load() > 0) out.tags.push_back("join_path:wake_of_active_joiner");
    if (interrupted) out.tags.push_back("saw:interruption_delivered");
    for (auto& r : rs) if (r->interrupt_ok.load() == 2) { out.tags.push_back("saw:interrupt_refused_disabled"); break; }
    return out;
}

int main(int argc, char** argv)
{
    Target T;
    T.property = "C13";
    T.engine = "E-rt";
    T.forked = true;
    T.tape_scale = 3;
    T.child_timeout_s = 60;
    T.describe = describe;
    T.run = run;
    T.signature = [](tape_t const& t, Outcome const& o) {
        Case c = decode(t);
        return std::string("{\"oracle\": ") + jstr(o.oracle) + ", \"policy\": " + jstr(policies[c.cfg.policy]) + "}";
    };
    return target_main(argc, argv, T);
}
