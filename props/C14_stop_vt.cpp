// C14 (race part) — concurrent request_stop callers, callback registration / deregistration racing
// the stopper's callback loop.   Engine: E-vt (hook sites 70/71/72 + agent operations are decision points).
#include "vt.hpp"

#include <pika/stop_token.hpp>

#include <functional>
#include <memory>

using namespace vf;

struct CbSpec
{
    int pre_steps = 0;       // steps before registering
    int hold_steps = 0;      // steps between registration and destruction
    int body_steps = 0;      // steps inside the callback body
    int body_action = 0;     // 0 none, 1 destroy itself, 2 destroy callback `other`
    int other = 0;
};
struct Case
{
    int nstoppers = 2;
    std::vector<int> stop_pre;    // steps before request_stop
    std::vector<CbSpec> cbs;
    // observer thread: polls stop_requested()/stop_possible() of a token while everything else goes on
    int obs_steps = 0;
    // "no stop" mode: nobody requests stop; the only stop_source goes away at a generated point while callbacks are
    // registered / deregistered: stop_possible must be true exactly while the source exists
    bool no_stop = false;
    int src_gone_after = 0;
};

static Case decode(Tape& t)
{
    Case c;
    c.nstoppers = 1 + static_cast<int>(t.below(3));
    for (int i = 0; i < c.nstoppers; ++i) c.stop_pre.push_back(static_cast<int>(t.below(4)));
    int m = 1 + static_cast<int>(t.below(3));
    for (int j = 0; j < m; ++j)
    {
        CbSpec s;
        s.pre_steps = static_cast<int>(t.below(4));
        s.hold_steps = static_cast<int>(t.below(5));
        s.body_steps = static_cast<int>(t.below(3));
        s.body_action = t.weighted({5, 1, 2});
        s.other = static_cast<int>(t.below(static_cast<std::uint32_t>(m)));
        if (s.body_action == 2 && s.other == j) s.body_action = 1;
        c.cbs.push_back(s);
    }
    c.obs_steps = static_cast<int>(t.below(8));
    c.no_stop = t.chance(1, 4);
    c.src_gone_after = static_cast<int>(t.below(6));
    return c;
}

static std::string describe(tape_t const& tape)
{
    Tape t(tape);
    Case c = decode(t);
    std::ostringstream os;
    os << "{\"stoppers\": [";
    for (std::size_t i = 0; i < c.stop_pre.size(); ++i) os << (i ? "," : "") << c.stop_pre[i];
    os << "], \"callbacks\": [";
    for (std::size_t j = 0; j < c.cbs.size(); ++j)
    {
        auto const& s = c.cbs[j];
        os << (j ? ", " : "") << "{\"pre\": " << s.pre_steps << ", \"hold\": " << s.hold_steps << ", \"token\": \"" << (s.pre_steps % 2 == 1 ? "rvalue" : "lvalue") << "\", \"body_steps\": " << s.body_steps << ", \"body\": \""
           << (s.body_action == 0 ? "none" : s.body_action == 1 ? "destroy_self" : "destroy_cb" + std::to_string(s.other)) << "\"}";
    }
    os << "], \"observer_polls\": " << c.obs_steps << ", \"mode\": \"" << (c.no_stop ? "no_stop: source destroyed after " + std::to_string(c.src_gone_after) + " steps" : std::string("request_stop")) << "\"";
    os << ", \"schedule_tape_from\": " << t.pos << "}";
    return os.str();
}

struct World;
struct Body
{
    World* w;
    int j;
    void operator()() const;
};
using callback_t = pika::stop_callback<Body>;

struct World
{
    Case const* c = nullptr;
    pika::stop_source src;
    std::vector<callback_t*> slot;
    std::vector<int> runs, in_body, body_thread, destroyed, registered_before_stop_done, ctor_done;
    int true_results = 0;
    bool stop_done = false;    // a request_stop() that returned true has returned
    bool stop_started = false;
    int src_gone = 0;    // 0 alive, 1 being destroyed, 2 gone
    long long polls_during_lock_ops = 0;
    int in_lock_op = 0;  // a callback registration / deregistration is in progress on some thread
    std::string fail, fail_oracle;
    long long concurrent_dereg = 0;
    void set_fail(char const* o, std::string m)
    {
        if (fail.empty()) { fail_oracle = o; fail = std::move(m); }
    }
    // whoever takes the pointer out of the slot destroys the callback
    void destroy(int j)
    {
        callback_t* p = slot[static_cast<std::size_t>(j)];
        if (!p) return;
        slot[static_cast<std::size_t>(j)] = nullptr;
        bool must_have_run = stop_done && ctor_done[static_cast<std::size_t>(j)];
        if (stop_started && !stop_done) ++concurrent_dereg;
        ++in_lock_op;
        delete p;
        --in_lock_op;
        destroyed[static_cast<std::size_t>(j)] = 1;
        if (in_body[static_cast<std::size_t>(j)] && body_thread[static_cast<std::size_t>(j)] != vt::self())
            set_fail("destructor_did_not_wait", "stop_callback " + std::to_string(j) + " destructor returned on logical thread " + std::to_string(vt::self()) +
                    " while its callback is still executing on logical thread " + std::to_string(body_thread[static_cast<std::size_t>(j)]));
        if (must_have_run && runs[static_cast<std::size_t>(j)] != 1)
            set_fail("callback_not_run", "callback " + std::to_string(j) + " was registered, stop completed before its destruction began, but it ran " +
                    std::to_string(runs[static_cast<std::size_t>(j)]) + " times");
    }
};

void Body::operator()() const
{
    World& W = *w;
    std::size_t jj = static_cast<std::size_t>(j);
    if (W.destroyed[jj]) { W.set_fail("callback_after_destructor", "callback " + std::to_string(j) + " invoked after its stop_callback destructor returned"); return; }
    if (++W.runs[jj] > 1) W.set_fail("callback_twice", "callback " + std::to_string(j) + " invoked " + std::to_string(W.runs[jj]) + " times");
    W.in_body[jj] = 1;
    W.body_thread[jj] = vt::self();
    CbSpec spec = W.c->cbs[jj];
    for (int k = 0; k < spec.body_steps; ++k)
    {
        vt::step();
        if (W.destroyed[jj] && spec.body_action == 0) W.set_fail("callback_after_destructor", "callback " + std::to_string(j) + " still running after its destructor returned on another thread");
    }
    if (spec.body_action == 1) { W.in_body[jj] = 0; W.destroy(j); return; }
    if (spec.body_action == 2) W.destroy(spec.other);
    W.in_body[jj] = 0;
}

static Outcome run(tape_t const& tape)
{
    Tape t(tape);
    Case c = decode(t);
    vt::install_vt_hook();
    vt::Sched s;
    auto Wp = std::make_unique<World>();
    World& W = *Wp;
    W.c = &c;
    std::size_t m = c.cbs.size();
    W.slot.assign(m, nullptr);
    W.runs.assign(m, 0);
    W.in_body.assign(m, 0);
    W.body_thread.assign(m, -1);
    W.destroyed.assign(m, 0);
    W.ctor_done.assign(m, 0);
    pika::stop_token tok = W.src.get_token();
    for (int i = 0; i < (c.no_stop ? 0 : c.nstoppers); ++i)
    {
        s.add([&, i] {
            for (int k = 0; k < c.stop_pre[static_cast<std::size_t>(i)]; ++k) vt::step();
            W.stop_started = true;
            bool r = W.src.request_stop();
            if (r)
            {
                ++W.true_results;
                W.stop_done = true;
                if (W.true_results > 1) W.set_fail("two_winners", "request_stop() returned true to " + std::to_string(W.true_results) + " callers");
            }
            if (!tok.stop_requested()) W.set_fail("stop_not_visible", "stop_requested() is false after request_stop() returned");
        });
    }
    for (std::size_t j = 0; j < m; ++j)
    {
        s.add([&, j] {
            CbSpec const& sp = c.cbs[j];
            for (int k = 0; k < sp.pre_steps; ++k) vt::step();
            bool stop_was_done = W.stop_done;
            ++W.in_lock_op;
            // both constructor overloads: from an lvalue token and (odd pre_steps; derived from an existing draw) from an rvalue token
            auto* p = (sp.pre_steps % 2 == 1) ? new callback_t(pika::stop_token(tok), Body{&W, static_cast<int>(j)}) : new callback_t(tok, Body{&W, static_cast<int>(j)});
            --W.in_lock_op;
            // the body may already have destroyed "itself" only after the slot is published; an inline run
            // from the constructor finds an empty slot and therefore leaves the object to us
            if (!W.destroyed[j]) W.slot[j] = p;
            W.ctor_done[j] = 1;
            if (stop_was_done && W.runs[j] != 1)
                W.set_fail("callback_not_run_at_registration", "stop had completed before callback " + std::to_string(j) + " was registered, but the constructor ran it " + std::to_string(W.runs[j]) + " times");
            for (int k = 0; k < sp.hold_steps; ++k) vt::step();
            W.destroy(static_cast<int>(j));
        });
    }
    if (c.no_stop)
    {
        s.add([&] {
            for (int k = 0; k < c.src_gone_after; ++k) vt::step();
            W.src_gone = 1;
            W.src = pika::stop_source(pika::nostopstate);    // the only source lets go of the state
            W.src_gone = 2;
        });
    }
    if (c.obs_steps > 0)
    {
        s.add([&] {
            for (int k = 0; k < c.obs_steps; ++k)
            {
                bool started = W.stop_started, done_before = W.stop_done;
                int gone_before = W.src_gone;
                if (W.in_lock_op) ++W.polls_during_lock_ops;
                bool req = tok.stop_requested();
                bool pos = tok.stop_possible();
                int gone_after = W.src_gone;
                if (req && !started && !W.stop_started) W.set_fail("stop_requested_without_request", "stop_requested() is true although nobody has called request_stop()");
                if (!req && done_before) W.set_fail("stop_not_visible", "stop_requested() is false on the observer although a request_stop() that returned true had already returned");
                if (!c.no_stop && !pos) W.set_fail("token_stop_possible", "stop_possible() is false although a stop_source for the state exists");
                if (c.no_stop && gone_after == 0 && !pos) W.set_fail("token_stop_possible", "stop_possible() is false although the stop_source still exists");
                if (c.no_stop && gone_before == 2 && pos)
                    W.set_fail("token_stop_possible", "stop_possible() is true although the only stop_source is gone and stop was never requested (a callback registration/deregistration was in progress: " +
                            std::string(W.in_lock_op ? "yes" : "no") + ")");
                vt::step();
            }
        });
    }
    s.diagnose = [&] { return "stop: started=" + std::to_string(W.stop_started) + " done=" + std::to_string(W.stop_done); };
    s.run(t);
    if (W.fail.empty() && !c.no_stop && W.true_results != 1) W.set_fail("no_winner", "request_stop() returned true to " + std::to_string(W.true_results) + " of " + std::to_string(c.nstoppers) + " callers");
    for (std::size_t j = 0; j < m; ++j)
        if (W.slot[j]) { callback_t* p = W.slot[j]; W.slot[j] = nullptr; delete p; }
    Outcome out;
    if (!W.fail.empty()) out = Outcome::fail(W.fail_oracle, W.fail);
    out.counters["decisions"] = s.decisions;
    out.counters["switches"] = s.switches;
    out.counters["deregistration_during_stop"] = W.concurrent_dereg;
    out.counters["observer_polls_during_registration_ops"] = W.polls_during_lock_ops;
    out.nontrivial = W.concurrent_dereg > 0 || (!c.no_stop && c.nstoppers >= 2) || W.polls_during_lock_ops > 0;
    if (c.no_stop) out.tags.push_back("mode:no_stop_source_destroyed");
    if (W.polls_during_lock_ops) out.tags.push_back("saw:observer_poll_during_registration_op");
    if (W.concurrent_dereg) out.tags.push_back("saw:deregistration_concurrent_with_stopper_loop");
    if (c.nstoppers >= 2) out.tags.push_back("has:racing_request_stop");
    return out;
}

int main(int argc, char** argv)
{
    Target T;
    T.property = "C14";
    T.engine = "E-vt";
    T.forked = true;
    T.tape_scale = 3;
    T.child_timeout_s = 30;
    T.describe = describe;
    T.run = run;
    T.signature = [](tape_t const&, Outcome const& o) { return std::string("{\"oracle\": ") + jstr(o.oracle) + ", \"part\": \"race\"}"; };
    return target_main(argc, argv, T);
}
