// C01 — every submitted task runs exactly once, on one worker at a time.   Engine: E-rt.
#include "prog.hpp"

using namespace vf;
using namespace vf::prog;

struct Case
{
    RtConfig cfg;
    Program prog;
    // bystanders: tasks parked for the whole duration of a wave so that every queue's thread map sits above
    // pika.thread_queue.max_thread_count while the wave's tasks are created, suspended and woken
    int crowd = 0;
};

static Case decode(tape_t const& tape)
{
    Tape t(tape);
    Case c;
    c.cfg = decode_config(t, {S_SL_BEFORE_RUN, S_SL_AFTER_RUN, S_SL_AFTER_STORE, S_DO_YIELD, S_STS_BEFORE_CAS,
                                 S_STS_BEFORE_SCHEDULE, S_SET_ACTIVE_STATE, S_CV_WAIT, S_CV_NOTIFY_ONE});
    {
        int per_worker = t.pick({0, 0, 0, 14, 40});
        if (c.cfg.workers <= 2 && t.chance(1, 12)) per_worker = 1000;
        c.crowd = per_worker * c.cfg.workers;
    }
    ProgOptions o;
    o.workers = c.cfg.workers;
    c.prog = decode_program(t, o);
    return c;
}

static std::string describe(tape_t const& tape)
{
    Case c = decode(tape);
    return "{\"config\": " + c.cfg.describe() + ", \"program\": " + c.prog.describe() + ", \"parked_bystander_tasks_per_wave\": " + std::to_string(c.crowd) + "}";
}

static Outcome run(tape_t const& tape)
{
    Case c = decode(tape);
    restrict_cpus(c.cfg.cpus);
    install_hook(c.cfg);
    start_runtime(c.cfg);
    Interp in(c.prog, c.cfg);
    G().diagnose = [&] { return in.diagnose(); };
    G().stranded_after_samples = 100;
    Quiescence q;
    q.start();
    Outcome out;
    long long crowd_parked = 0;
    for (int w = 0; w < c.prog.nwaves; ++w)
    {
        if (c.crowd == 0)
        {
            in.submit_wave(w);
            MainWaiting mw;
            pika::wait();
        }
        else
        {
            // the bystanders are released by a harness thread once every task of the wave has finished; until then the main
            // thread waits for that signal (a quiescent runtime with the wave unfinished = lost / deadlocked task)
            auto wave_finished = [&] {
                for (int i = 0; i < in.led.n; ++i)
                    if (c.prog.tasks[static_cast<std::size_t>(i)].wave == w && in.led.finished[static_cast<std::size_t>(i)].load() != 1) return false;
                return true;
            };
            pika::latch crowd_latch(1);
            std::atomic<int> parked{0};
            for (int k = 0; k < c.crowd; ++k)
                pika::execution::experimental::execute(pika::execution::experimental::thread_pool_scheduler{}, [&] { parked.fetch_add(1); crowd_latch.wait(); });
            in.submit_wave(w);
            G().awaited_signal_missing = [&] { return !wave_finished(); };
            std::thread releaser([&] {
                while (!wave_finished()) { struct timespec ts { 0, 500000 }; nanosleep(&ts, nullptr); }
                crowd_latch.count_down(1);
            });
            {
                MainWaitingForSignal mw;
                releaser.join();
            }
            G().awaited_signal_missing = nullptr;
            {
                MainWaiting mw;
                pika::wait();
            }
            crowd_parked += parked.load();
        }
        std::string err = in.check_wave(w);
        if (!err.empty()) { out = Outcome::fail("ledger_after_wait", err); break; }
    }
    // the detector samples pool state: it must be gone before the pools are torn down
    q.enter_stop_mode([&] { for (int i = 0; i < in.led.n; ++i) if (in.led.finished[static_cast<std::size_t>(i)].load() != 1) return false; return true; });
    if (out.kind == Outcome::PASS) stop_runtime();
    q.finish();
    add_monitor_counters(out);
    out.counters["tasks"] = static_cast<long long>(c.prog.tasks.size());
    out.nontrivial = G().migrations.load() > 0 || G().suspends.load() > 0 || G().rebinds.load() > 0;
    out.tags.push_back(std::string("policy:") + policies[c.cfg.policy]);
    out.tags.push_back("workers:" + std::to_string(c.cfg.workers));
    out.tags.push_back(std::string("stealing:") + (c.cfg.stealing ? "on" : "off"));
    if (G().migrations.load() > 0) out.tags.push_back("saw:migration");
    if (G().suspends.load() > 0) out.tags.push_back("saw:suspend");
    if (G().rebinds.load() > 0) out.tags.push_back("saw:rebind");
    if (G().active_retry.load() > 0) out.tags.push_back("saw:active_retry");
    if (c.prog.nsubmitters > 0) out.tags.push_back("external_submitters");
    if (c.crowd) out.tags.push_back(c.crowd / c.cfg.workers + 10 > c.cfg.max_thread_count ? "has:parked_bystanders_above_the_queues_thread_limit" : "has:parked_bystanders");
    out.counters["bystanders_parked"] = crowd_parked;
    if (c.prog.mass_event >= 0)
    {
        out.tags.push_back("has:mass_wait");
        long long nw = static_cast<long long>(c.prog.events[static_cast<std::size_t>(c.prog.mass_event)].waiters.size());
        if (nw > static_cast<long long>(c.cfg.max_thread_count) * c.cfg.workers) out.tags.push_back("has:mass_wait_above_queue_thread_limit");
    }
    return out;
}

int main(int argc, char** argv)
{
    Target T;
    T.property = "C01";
    T.engine = "E-rt";
    T.forked = true;
    T.tape_scale = 12;
    T.child_timeout_s = 60;
    T.describe = describe;
    T.run = run;
    T.signature = [](tape_t const& t, Outcome const& o) {
        Case c = decode(t);
        return std::string("{\"oracle\": ") + jstr(o.oracle) + ", \"policy\": " + jstr(policies[c.cfg.policy]) + "}";
    };
    return target_main(argc, argv, T);
}
