// C01 — every submitted task runs exactly once, on one worker at a time.   Engine: E-rt.
#include "prog.hpp"

using namespace vf;
using namespace vf::prog;

struct Case
{
    RtConfig cfg;
    Program prog;
};

static Case decode(tape_t const& tape)
{
    Tape t(tape);
    Case c;
    c.cfg = decode_config(t, {S_SL_BEFORE_RUN, S_SL_AFTER_RUN, S_SL_AFTER_STORE, S_DO_YIELD, S_STS_BEFORE_CAS,
                                 S_STS_BEFORE_SCHEDULE, S_SET_ACTIVE_STATE, S_CV_WAIT, S_CV_NOTIFY_ONE});
    ProgOptions o;
    o.workers = c.cfg.workers;
    c.prog = decode_program(t, o);
    return c;
}

static std::string describe(tape_t const& tape)
{
    Case c = decode(tape);
    return "{\"config\": " + c.cfg.describe() + ", \"program\": " + c.prog.describe() + "}";
}

static Outcome run(tape_t const& tape)
{
    Case c = decode(tape);
    restrict_cpus(c.cfg.cpus);
    install_hook(c.cfg);
    start_runtime(c.cfg);
    Interp in(c.prog, c.cfg);
    G().diagnose = [&] { return in.diagnose(); };
    G().stranded_after_samples = 100;
    Quiescence q;
    q.start();
    Outcome out;
    for (int w = 0; w < c.prog.nwaves; ++w)
    {
        in.submit_wave(w);
        {
            MainWaiting mw;
            pika::wait();
        }
        std::string err = in.check_wave(w);
        if (!err.empty()) { out = Outcome::fail("ledger_after_wait", err); break; }
    }
    // the detector samples pool state: it must be gone before the pools are torn down
    q.enter_stop_mode([&] { for (int i = 0; i < in.led.n; ++i) if (in.led.finished[static_cast<std::size_t>(i)].load() != 1) return false; return true; });
    if (out.kind == Outcome::PASS) stop_runtime();
    q.finish();
    add_monitor_counters(out);
    out.counters["tasks"] = static_cast<long long>(c.prog.tasks.size());
    out.nontrivial = G().migrations.load() > 0 || G().suspends.load() > 0 || G().rebinds.load() > 0;
    out.tags.push_back(std::string("policy:") + policies[c.cfg.policy]);
    out.tags.push_back("workers:" + std::to_string(c.cfg.workers));
    out.tags.push_back(std::string("stealing:") + (c.cfg.stealing ? "on" : "off"));
    if (G().migrations.load() > 0) out.tags.push_back("saw:migration");
    if (G().suspends.load() > 0) out.tags.push_back("saw:suspend");
    if (G().rebinds.load() > 0) out.tags.push_back("saw:rebind");
    if (G().active_retry.load() > 0) out.tags.push_back("saw:active_retry");
    if (c.prog.nsubmitters > 0) out.tags.push_back("external_submitters");
    if (c.prog.mass_event >= 0)
    {
        out.tags.push_back("has:mass_wait");
        long long nw = static_cast<long long>(c.prog.events[static_cast<std::size_t>(c.prog.mass_event)].waiters.size());
        if (nw > static_cast<long long>(c.cfg.max_thread_count) * c.cfg.workers) out.tags.push_back("has:mass_wait_above_queue_thread_limit");
    }
    return out;
}

int main(int argc, char** argv)
{
    Target T;
    T.property = "C01";
    T.engine = "E-rt";
    T.forked = true;
    T.tape_scale = 12;
    T.child_timeout_s = 60;
    T.describe = describe;
    T.run = run;
    T.signature = [](tape_t const& t, Outcome const& o) {
        Case c = decode(t);
        return std::string("{\"oracle\": ") + jstr(o.oracle) + ", \"policy\": " + jstr(policies[c.cfg.policy]) + "}";
    };
    return target_main(argc, argv, T);
}
