// C02 (groups) — no lost wake-up when SEVERAL tasks are registered as waiters on one facility and the
// matching wake-ups are issued back to back (the second wake-up lands while the task woken by the first has
// not run yet).   Engine: E-rt.
// C02_lost_wakeup covers one waiter per channel; here each channel has K waiters and the waker issues exactly
// the K wake-ups the facility needs per round, then blocks until all K acknowledged.  Oracle: the
// state-based quiescence detector (wake-ups issued, waiters still suspended, runtime quiescent) and
// completion of all rounds.
#include "rt.hpp"

#include <pika/condition_variable.hpp>
#include <pika/latch.hpp>
#include <pika/mutex.hpp>
#include <pika/semaphore.hpp>
#include <pika/synchronization/event.hpp>

using namespace vf;
using namespace vf::rt;

enum Fac { F_SEM, F_CV_MUTEX, F_CV_ANY_SPIN, F_LATCH, F_EVENT, F_COUNT };
static char const* const fac_names[] = {"semaphore", "cv+pika::mutex", "cv_any+spinlock", "latch", "event"};
enum Mode { M_ONE_BY_ONE, M_ALL_AT_ONCE, M_SPLIT };    // K x wake(1) | wake(K) / notify_all | wake(1) + wake(K-1)
static char const* const mode_names[] = {"one_by_one", "all_at_once", "1+rest"};

struct Channel
{
    int fac = 0, k = 2, rounds = 1, mode = 0;
    bool os_waker = false;
    bool wait_until_all_blocked = false;
    int waker_hint = -1;
    std::vector<int> hints;
    int gap = 0;    // delay code between two wake-ups of a round
    bool under_lock = false;
};
struct Case
{
    RtConfig cfg;
    std::vector<Channel> ch;
};

static Case decode(tape_t const& tape)
{
    Tape t(tape);
    Case c;
    c.cfg = decode_config(t, {S_CV_WAIT, S_DO_YIELD, S_SL_AFTER_RUN, S_STS_BEFORE_CAS, S_STS_BEFORE_SCHEDULE, S_STS_ENTRY, S_SET_ACTIVE_STATE,
                                 S_STS_ACTIVE_HELPER, S_CV_NOTIFY_ONE, S_CV_NOTIFY_ALL, S_SEM_SIGNAL, S_SEM_WAIT, S_SEM_SIGNAL_RELOCK, S_SEM_SIGNAL_RELOCK, S_LATCH_NOTIFY, S_MUTEX_UNLOCK});
    c.cfg.workers = t.weighted({4, 4, 2, 2, 1, 1, 1, 1}) + 1;
    int n = t.weighted({5, 3, 1}) + 1;
    for (int i = 0; i < n; ++i)
    {
        Channel ch;
        ch.fac = static_cast<int>(t.below(F_COUNT));
        ch.k = 2 + t.weighted({4, 3, 2, 1, 1});
        ch.rounds = t.pick({1, 3, 10, 30});
        ch.mode = static_cast<int>(t.below(3));
        ch.os_waker = ch.fac != F_CV_MUTEX && t.chance(1, 3);
        ch.wait_until_all_blocked = t.chance(1, 2);
        ch.waker_hint = t.chance(1, 3) ? static_cast<int>(t.below(static_cast<std::uint32_t>(c.cfg.workers))) : -1;
        for (int j = 0; j < ch.k; ++j) ch.hints.push_back(t.chance(1, 3) ? static_cast<int>(t.below(static_cast<std::uint32_t>(c.cfg.workers))) : -1);
        ch.gap = t.weighted({4, 2, 1, 1});
        ch.under_lock = t.chance(1, 2);
        c.ch.push_back(std::move(ch));
    }
    return c;
}

static std::string describe(tape_t const& tape)
{
    Case c = decode(tape);
    std::ostringstream os;
    os << "{\"config\": " << c.cfg.describe() << ", \"channels\": [";
    for (std::size_t i = 0; i < c.ch.size(); ++i)
    {
        auto const& h = c.ch[i];
        os << (i ? ", " : "") << "{\"facility\": \"" << fac_names[h.fac] << "\", \"waiters\": " << h.k << ", \"rounds\": " << h.rounds << ", \"wakeups\": \"" << mode_names[h.mode]
           << "\", \"waker\": \"" << (h.os_waker ? "os_thread" : "task") << "\", \"waker_waits_until_all_blocked\": " << (h.wait_until_all_blocked ? "true" : "false")
           << ", \"gap\": " << h.gap << ", \"notify_under_lock\": " << (h.under_lock ? "true" : "false") << "}";
    }
    os << "]}";
    return os.str();
}

struct ChanRt
{
    Channel spec;
    pika::counting_semaphore<> sem{0};
    pika::mutex mtx;
    pika::condition_variable cv;
    pika::concurrency::detail::spinlock spin;
    pika::condition_variable_any cva;
    int permits = 0;    // protected by mtx / spin
    std::vector<std::unique_ptr<pika::latch>> latches;
    std::vector<std::unique_ptr<pika::experimental::event>> events;
    pika::counting_semaphore<> ack_sem{0};
    std::atomic<int> acks{0}, in_wait{0}, issued{0}, received{0}, done{0};
};

static void gap(int code, bool on_task)
{
    switch (code)
    {
    case 0: break;
    case 1: { volatile int x = 0; for (int k = 0; k < 300; ++k) x = x + 1; break; }
    case 2: if (on_task) pika::this_thread::yield(); else sched_yield(); break;
    case 3: { volatile int x = 0; for (int k = 0; k < 30000; ++k) x = x + 1; break; }
    }
}

template <typename Lock, typename CV>
static void cv_issue(ChanRt& c, Lock& lk, CV& cv, int n, bool all)
{
    std::unique_lock<Lock> l(lk);
    c.permits += n;
    auto notify = [&] { if (all) cv.notify_all(); else for (int i = 0; i < n; ++i) cv.notify_one(); };
    if (c.spec.under_lock) notify();
    l.unlock();
    if (!c.spec.under_lock) notify();
}

// issue the wake-ups of one round
static void issue_round(ChanRt& c, int r, bool on_task)
{
    int k = c.spec.k;
    std::vector<int> parts;
    if (c.spec.mode == M_ONE_BY_ONE) parts.assign(static_cast<std::size_t>(k), 1);
    else if (c.spec.mode == M_ALL_AT_ONCE) parts = {k};
    else parts = {1, k - 1};
    if (c.spec.fac == F_LATCH || c.spec.fac == F_EVENT) parts = {k};
    bool first = true;
    for (int n : parts)
    {
        if (!first) gap(c.spec.gap, on_task);
        first = false;
        switch (c.spec.fac)
        {
        case F_SEM: c.sem.release(n); break;
        case F_CV_MUTEX: cv_issue(c, c.mtx, c.cv, n, c.spec.mode == M_ALL_AT_ONCE); break;
        case F_CV_ANY_SPIN: cv_issue(c, c.spin, c.cva, n, c.spec.mode == M_ALL_AT_ONCE); break;
        case F_LATCH: c.latches[static_cast<std::size_t>(r)]->count_down(1); break;
        case F_EVENT: c.events[static_cast<std::size_t>(r)]->set(); break;
        }
        c.issued.fetch_add(n);
    }
}

static void wait_one(ChanRt& c, int r)
{
    c.in_wait.fetch_add(1);
    switch (c.spec.fac)
    {
    case F_SEM: c.sem.acquire(); break;
    case F_CV_MUTEX:
    {
        std::unique_lock<pika::mutex> l(c.mtx);
        c.cv.wait(l, [&] { return c.permits > 0; });
        --c.permits;
        break;
    }
    case F_CV_ANY_SPIN:
    {
        std::unique_lock<pika::concurrency::detail::spinlock> l(c.spin);
        c.cva.wait(l, [&] { return c.permits > 0; });
        --c.permits;
        break;
    }
    case F_LATCH: c.latches[static_cast<std::size_t>(r)]->wait(); break;
    case F_EVENT: c.events[static_cast<std::size_t>(r)]->wait(); break;
    }
    c.in_wait.fetch_sub(1);
    c.received.fetch_add(1);
}

static Outcome run(tape_t const& tape)
{
    Case c = decode(tape);
    restrict_cpus(c.cfg.cpus);
    install_hook(c.cfg);
    start_runtime(c.cfg);
    std::vector<std::unique_ptr<ChanRt>> chans;
    for (auto const& s : c.ch)
    {
        auto r = std::make_unique<ChanRt>();
        r->spec = s;
        for (int k = 0; k < s.rounds; ++k)
        {
            if (s.fac == F_LATCH) r->latches.push_back(std::make_unique<pika::latch>(1));
            if (s.fac == F_EVENT) r->events.push_back(std::make_unique<pika::experimental::event>());
        }
        chans.push_back(std::move(r));
    }
    G().diagnose = [&] {
        std::ostringstream os;
        for (std::size_t i = 0; i < chans.size(); ++i)
        {
            auto& ch = *chans[i];
            if (ch.done.load() >= ch.spec.k + 1) continue;
            os << "channel " << i << " (" << fac_names[ch.spec.fac] << ", " << ch.spec.k << " waiters, " << mode_names[ch.spec.mode] << "): wake-ups issued=" << ch.issued.load()
               << " received=" << ch.received.load() << " waiters inside wait=" << ch.in_wait.load() << "; ";
        }
        return os.str();
    };
    G().stranded_after_samples = 100;
    Quiescence q;
    q.start();
    std::vector<std::thread> os_threads;
    std::atomic<long long> rounds_with_all_blocked{0};
    for (auto& up : chans)
    {
        ChanRt* ch = up.get();
        ex::thread_pool_scheduler sched{};
        for (int j = 0; j < ch->spec.k; ++j)
        {
            auto ws = sched;
            if (ch->spec.hints[static_cast<std::size_t>(j)] >= 0)
                ws = ex::with_hint(ws, pika::execution::thread_schedule_hint(static_cast<std::int16_t>(ch->spec.hints[static_cast<std::size_t>(j)])));
            ex::execute(ws, [ch] {
                for (int r = 0; r < ch->spec.rounds; ++r)
                {
                    wait_one(*ch, r);
                    ch->acks.fetch_add(1);
                    if (!ch->spec.os_waker) ch->ack_sem.release(1);
                    // all waiters of a round must have been released before anybody enters the next round: wait for the go of the waker
                    // (otherwise a fast waiter could take a permit of the next round: harmless, but the per-round accounting of
                    // latch/event would not match)
                }
                ch->done.fetch_add(1);
            });
        }
        auto waker = [ch, &rounds_with_all_blocked](bool on_task) {
            for (int r = 0; r < ch->spec.rounds; ++r)
            {
                if (ch->spec.wait_until_all_blocked)
                {
                    // (bounded: waiters of this round that were faster are simply not inside the wait any more)
                    for (int spin = 0; spin < 200 && ch->in_wait.load() < ch->spec.k; ++spin)
                    {
                        if (on_task) pika::this_thread::yield(); else sched_yield();
                    }
                }
                if (ch->in_wait.load() >= ch->spec.k) rounds_with_all_blocked.fetch_add(1);
                issue_round(*ch, r, on_task);
                if (on_task) { for (int j = 0; j < ch->spec.k; ++j) ch->ack_sem.acquire(); }
                else
                {
                    G().external_actors.fetch_sub(1);
                    while (ch->acks.load() < (r + 1) * ch->spec.k) { struct timespec ts { 0, 20000 }; nanosleep(&ts, nullptr); }
                    G().external_actors.fetch_add(1);
                }
            }
            ch->done.fetch_add(1);
        };
        if (ch->spec.os_waker)
        {
            G().external_actors.fetch_add(1);
            os_threads.emplace_back([waker] { waker(false); G().external_actors.fetch_sub(1); });
        }
        else
        {
            auto ks = sched;
            if (ch->spec.waker_hint >= 0) ks = ex::with_hint(ks, pika::execution::thread_schedule_hint(static_cast<std::int16_t>(ch->spec.waker_hint)));
            ex::execute(ks, [waker] { waker(true); });
        }
    }
    {
        MainWaiting mw;
        for (auto& th : os_threads) th.join();
        pika::wait();
    }
    Outcome out;
    for (std::size_t i = 0; i < chans.size() && out.kind == Outcome::PASS; ++i)
    {
        auto& ch = *chans[i];
        if (ch.done.load() != ch.spec.k + 1 || ch.received.load() != ch.spec.k * ch.spec.rounds)
            out = Outcome::fail("channel_incomplete", "channel " + std::to_string(i) + " (" + fac_names[ch.spec.fac] + "): wait() returned but received=" + std::to_string(ch.received.load()) +
                    " of " + std::to_string(ch.spec.k * ch.spec.rounds) + " wake-ups, actors done " + std::to_string(ch.done.load()) + "/" + std::to_string(ch.spec.k + 1));
    }
    q.enter_stop_mode([] { return true; });
    if (out.kind == Outcome::PASS) stop_runtime();
    q.finish();
    add_monitor_counters(out);
    out.counters["rounds_with_all_waiters_blocked"] = rounds_with_all_blocked.load();
    out.nontrivial = rounds_with_all_blocked.load() > 0 && G().suspends.load() >= 2;
    out.tags.push_back(std::string("policy:") + policies[c.cfg.policy]);
    for (auto const& h : c.ch) { out.tags.push_back(std::string("facility:") + fac_names[h.fac]); out.tags.push_back(std::string("wakeups:") + mode_names[h.mode]); }
    if (rounds_with_all_blocked.load() > 0) out.tags.push_back("saw:all_waiters_blocked_before_wakeups");
    if (G().active_retry.load() > 0) out.tags.push_back("saw:wakeup_of_still_active_target");
    return out;
}

int main(int argc, char** argv)
{
    Target T;
    T.property = "C02";
    T.engine = "E-rt";
    T.forked = true;
    T.tape_scale = 2;
    T.child_timeout_s = 60;
    T.describe = describe;
    T.run = run;
    T.signature = [](tape_t const& t, Outcome const& o) {
        Case c = decode(t);
        return std::string("{\"oracle\": ") + jstr(o.oracle) + ", \"policy\": " + jstr(policies[c.cfg.policy]) + "}";
    };
    return target_main(argc, argv, T);
}
