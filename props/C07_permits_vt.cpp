// C07 (permits) — notify_one with several waiters of mixed kinds: every notify_one that finds waiters must release
// one of them for good (a waiter that consumed a notification must not report "timeout" and walk away), and a
// notification is never needed twice.   Engine: E-vt.
// The waiters use the condition variable as a permit counter (pred: permits > 0, then --permits); the notifier
// publishes P >= (number of waiters) permits one at a time with notify_one.  Timed waiters whose deadline passes
// leave without a permit; everybody else must get one: an all-blocked state with permits > 0 is a lost notification.
#include "vt.hpp"

#include <pika/concurrency/spinlock.hpp>
#include <pika/condition_variable.hpp>

using namespace vf;

struct TrackedLock
{
    pika::concurrency::detail::spinlock sp;
    int owner = -1;
    void lock()
    {
        sp.lock();
        owner = vt::self();
    }
    bool try_lock()
    {
        if (!sp.try_lock()) return false;
        owner = vt::self();
        return true;
    }
    void unlock()
    {
        owner = -1;
        sp.unlock();
        vt::step();
    }
};

enum Form { F_WAIT_PRED, F_WAIT_FOR_FINITE_PRED, F_WAIT_UNTIL_FINITE_LOOP, F_WAIT_FOR_INF_PRED, F_WAIT_UNTIL_FINITE_GIVE_UP, F_PLAIN_LOOP, F_COUNT };
static char const* const form_names[] = {"wait(l,pred)", "wait_for(l,finite,pred)", "wait_until(l,finite) loop", "wait_for(l,inf,pred)",
    "wait_until(l,finite), gives up on cv_status::timeout without looking at the state again", "wait(l) loop"};

struct Waiter
{
    int form = 0, pre_steps = 0;
};
struct Case
{
    std::vector<Waiter> ws;
    int extra = 0;              // permits beyond one per waiter
    std::vector<int> gaps;      // steps before each notify
    bool under_lock = false;
    bool avoid_stale = false;
};

static Case decode(Tape& t)
{
    Case c;
    {
        char const* e = std::getenv("VERIF_AVOID");
        c.avoid_stale = e && std::strstr(e, "stale_wakeup_timed");
    }
    int nw = 2 + static_cast<int>(t.below(3));
    for (int i = 0; i < nw; ++i)
    {
        Waiter w;
        w.form = t.weighted({4, 3, 2, 2, 4, 3});
        w.pre_steps = static_cast<int>(t.below(3));
        c.ws.push_back(w);
    }
    c.extra = static_cast<int>(t.below(2));
    for (int i = 0; i < nw + c.extra; ++i) c.gaps.push_back(static_cast<int>(t.below(3)));
    c.under_lock = t.chance(1, 2);
    // accounting mode: every single wait call is visible to the harness (explicit loops only), so "a wait that a notification took
    // out of the queue returns as notified" can be counted: notifications delivered == waits that returned as notified
    if (t.chance(1, 2))
        for (auto& w : c.ws)
            w.form = w.form == F_WAIT_PRED || w.form == F_WAIT_FOR_INF_PRED ? F_PLAIN_LOOP : w.form == F_WAIT_FOR_FINITE_PRED ? F_WAIT_UNTIL_FINITE_LOOP : w.form;
    return c;
}

static std::string describe(tape_t const& tape)
{
    Tape t(tape);
    Case c = decode(t);
    std::ostringstream os;
    os << "{\"waiters\": [";
    for (std::size_t i = 0; i < c.ws.size(); ++i) os << (i ? ", " : "") << "\"" << form_names[c.ws[i].form] << "\"";
    os << "], \"permits_published_one_by_one_with_notify_one\": " << c.gaps.size() << ", \"notify_under_lock\": " << (c.under_lock ? "true" : "false") << ", \"schedule_tape_from\": " << t.pos << "}";
    return os.str();
}

static Outcome run(tape_t const& tape)
{
    Tape t(tape);
    Case c = decode(t);
    vt::install_vt_hook();
    vt::Sched s;
    s.discard_on_stale_timed = c.avoid_stale;
    TrackedLock L;
    pika::condition_variable_any cv;
    int permits = 0;    // protected by L
    int published = 0, consumed = 0, left_by_timeout = 0;
    long long blocked = 0, timed_out_waits = 0, notified_returns = 0;
    bool accounting = true;
    for (auto const& w : c.ws) accounting &= w.form == F_PLAIN_LOOP || w.form == F_WAIT_UNTIL_FINITE_LOOP || w.form == F_WAIT_UNTIL_FINITE_GIVE_UP;
    std::string fail, oracle;
    auto set_fail = [&](char const* o, std::string m) { if (fail.empty()) { oracle = o; fail = std::move(m); } };
    std::vector<int> in_wait(c.ws.size(), 0);

    s.add([&] {
        for (int gap : c.gaps)
        {
            for (int k = 0; k < gap; ++k) vt::step();
            {
                std::unique_lock<TrackedLock> l(L);
                ++permits;
                ++published;
                if (c.under_lock) cv.notify_one();
            }
            if (!c.under_lock) cv.notify_one();
            vt::step();
        }
    });
    for (std::size_t w = 0; w < c.ws.size(); ++w)
    {
        s.add([&, w] {
            Waiter const& x = c.ws[w];
            for (int k = 0; k < x.pre_steps; ++k) vt::step();
            std::unique_lock<TrackedLock> l(L);
            auto pred = [&] { return permits > 0; };
            long long sw = s.switches, to0 = s.timeouts_fired;
            in_wait[w] = 1;
            bool got = false;
            switch (x.form)
            {
            case F_WAIT_PRED: cv.wait(l, pred); got = true; break;
            case F_WAIT_FOR_INF_PRED: got = cv.wait_for(l, std::chrono::hours(24 * 365), pred); break;
            case F_WAIT_FOR_FINITE_PRED: got = cv.wait_for(l, std::chrono::milliseconds(50), pred); break;
            case F_PLAIN_LOOP:
                while (!pred())
                {
                    cv.wait(l);
                    ++notified_returns;
                }
                got = true;
                break;
            case F_WAIT_UNTIL_FINITE_GIVE_UP:
            {
                // a waiter that reports timeout was, by definition, not the one a notify_one released: leaving is fine for everybody else
                auto deadline = std::chrono::steady_clock::now() + std::chrono::milliseconds(50);
                for (;;)
                {
                    if (pred()) { got = true; break; }
                    long long t1 = s.timeouts_fired;
                    if (cv.wait_until(l, deadline) == pika::cv_status::timeout)
                    {
                        if (s.timeouts_fired == t1) set_fail("timed_wait_timeout_without_deadline", "wait_until(l,finite) reported timeout although the scheduler did not let its deadline pass during this call");
                        break;
                    }
                    ++notified_returns;
                }
                break;
            }
            default:
            {
                auto deadline = std::chrono::steady_clock::now() + std::chrono::milliseconds(50);
                got = true;
                while (!pred())
                {
                    long long t1 = s.timeouts_fired;
                    if (cv.wait_until(l, deadline) == pika::cv_status::timeout)
                    {
                        if (s.timeouts_fired == t1) set_fail("timed_wait_timeout_without_deadline", "wait_until(l,finite) reported timeout although the scheduler did not let its deadline pass during this call");
                        got = pred();
                        break;
                    }
                    ++notified_returns;
                }
                break;
            }
            }
            in_wait[w] = 0;
            if (s.switches != sw) ++blocked;
            if (L.owner != vt::self()) set_fail("lock_not_owned_on_return", std::string(form_names[x.form]) + " returned without owning the user lock");
            if (got != pred() && x.form != F_WAIT_UNTIL_FINITE_LOOP && x.form != F_WAIT_UNTIL_FINITE_GIVE_UP) set_fail("timed_pred_result", std::string(form_names[x.form]) + " returned " + std::to_string(got) + " but pred() is " + std::to_string(pred()));
            if (!got && s.timeouts_fired == to0)
                set_fail("timed_wait_timeout_without_deadline", std::string(form_names[x.form]) + " gave up although no deadline passed (the harness owns the clock)");
            if (got && pred()) { --permits; ++consumed; }
            else { ++left_by_timeout; if (s.timeouts_fired != to0) ++timed_out_waits; }
        });
    }
    s.diagnose = [&] {
        std::string d = "permits published " + std::to_string(published) + " of " + std::to_string(c.gaps.size()) + ", consumed " + std::to_string(consumed) + ", available now " + std::to_string(permits) + "; still waiting:";
        for (std::size_t w = 0; w < c.ws.size(); ++w) if (in_wait[w]) d += " waiter" + std::to_string(w) + "(" + form_names[c.ws[w].form] + ")";
        return d + " -- there is a permit for every waiter and every permit came with a notify_one";
    };
    s.run(t);
    if (s.must_discard()) { Outcome dsc; dsc.kind = Outcome::DISCARD; dsc.counters["avoided"] = 1; return dsc; }
    if (fail.empty() && accounting && notified_returns != s.resume_calls)
        set_fail("notification_consumed_by_a_wait_that_reported_timeout", std::to_string(s.resume_calls) + " wait-queue entries were taken out and resumed by notify_one, but only " + std::to_string(notified_returns) +
                " wait calls returned as notified: a waiter that a notification had already dequeued reported cv_status::timeout (the notification is lost for everybody)");
    if (fail.empty() && consumed + permits != published) set_fail("permit_accounting", "published " + std::to_string(published) + " consumed " + std::to_string(consumed) + " left " + std::to_string(permits));
    Outcome out;
    if (!fail.empty()) out = Outcome::fail(oracle, fail);
    out.counters["decisions"] = s.decisions;
    out.counters["switches"] = s.switches;
    out.counters["waits_that_blocked"] = blocked;
    out.counters["waiters_that_left_by_timeout"] = timed_out_waits;
    out.counters["timeouts_fired"] = s.timeouts_fired;
    out.counters["notifications_delivered"] = s.resume_calls;
    out.nontrivial = blocked >= 2 && s.timeouts_fired > 0;
    if (accounting) out.tags.push_back("mode:every_wait_call_counted");
    if (s.timeouts_fired) out.tags.push_back("saw:timeout_fired_with_other_waiters_queued");
    if (blocked >= 2) out.tags.push_back("saw:two_or_more_waiters_blocked");
    return out;
}

int main(int argc, char** argv)
{
    Target T;
    T.property = "C07";
    T.engine = "E-vt";
    T.forked = true;
    T.tape_scale = 3;
    T.child_timeout_s = 30;
    T.describe = describe;
    T.run = run;
    T.signature = [](tape_t const&, Outcome const& o) { return std::string("{\"oracle\": ") + jstr(o.oracle) + "}"; };
    return target_main(argc, argv, T);
}
