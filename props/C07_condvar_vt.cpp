// C07 — condition variables never lose a notification.   Engine: E-vt.
// condition_variable_any over a harness lock type whose lock()/unlock() are decision points.
#include "vt.hpp"

#include <pika/concurrency/spinlock.hpp>
#include <pika/condition_variable.hpp>
#include <pika/stop_token.hpp>

using namespace vf;

// user lock accepted by condition_variable_any (BasicLockable); records its owner
struct TrackedLock
{
    pika::concurrency::detail::spinlock sp;
    int owner = -1;
    void lock()
    {
        sp.lock();
        owner = vt::self();
    }
    bool try_lock()
    {
        if (!sp.try_lock()) return false;
        owner = vt::self();
        return true;
    }
    void unlock()
    {
        owner = -1;
        sp.unlock();
        vt::step();    // a notifier may run right after the user lock was released
    }
};

enum WaitForm { W_PRED, W_FOR_INF_PRED, W_UNTIL_FINITE_PRED, W_UNTIL_INF_NOPRED, W_STOP_PRED, W_PLAIN_LOOP, W_COUNT };
static char const* const form_names[] = {"wait(l,pred)", "wait_for(l,inf,pred)", "wait_until(l,finite,pred)", "wait_until(l,inf) loop", "wait(l,stoken,pred)", "wait(l) loop"};

struct WaitSpec
{
    int form = 0, target = 1;
    int pre_steps = 0;
};
struct Case
{
    int nwaiters = 1, gens = 1;
    std::vector<std::vector<WaitSpec>> waits;    // per waiter
    std::vector<int> notify_kind;                // per generation: 0 notify_all, 1 notify_one (only when a single waiter can be waiting)
    std::vector<bool> notify_under_lock;
    int stopper_at = -1;                         // generation after which stop is requested (-1: never)
    bool avoid_stale = false;
};

static Case decode(Tape& t)
{
    Case c;
    {
        char const* e = std::getenv("VERIF_AVOID");
        c.avoid_stale = e && std::strstr(e, "stale_wakeup_timed");
    }
    c.nwaiters = 1 + static_cast<int>(t.below(3));
    c.gens = 1 + static_cast<int>(t.below(3));
    bool any_stop = false;
    c.waits.resize(static_cast<std::size_t>(c.nwaiters));
    for (int w = 0; w < c.nwaiters; ++w)
    {
        int n = 1 + static_cast<int>(t.below(2));
        int tgt = 0;
        for (int k = 0; k < n; ++k)
        {
            WaitSpec ws;
            ws.form = t.weighted({4, 2, 3, 2, 2, 3});
            tgt = std::min(c.gens, tgt + 1 + static_cast<int>(t.below(2)));
            ws.target = tgt;
            ws.pre_steps = static_cast<int>(t.below(3));
            any_stop |= ws.form == W_STOP_PRED;
            c.waits[static_cast<std::size_t>(w)].push_back(ws);
            if (tgt == c.gens) break;
        }
    }
    for (int g = 1; g <= c.gens; ++g)
    {
        // how many waiters can still be waiting when generation g is published: those with a target >= g
        int cand = 0;
        for (auto const& ws : c.waits)
            for (auto const& w : ws)
                if (w.target >= g) { ++cand; break; }
        bool one = cand <= 1 && t.chance(1, 2);
        c.notify_kind.push_back(one ? 1 : 0);
        c.notify_under_lock.push_back(t.chance(1, 2));
    }
    if (any_stop) c.stopper_at = static_cast<int>(t.below(static_cast<std::uint32_t>(c.gens + 1)));
    return c;
}

static std::string describe(tape_t const& tape)
{
    Tape t(tape);
    Case c = decode(t);
    std::ostringstream os;
    os << "{\"waiters\": [";
    for (std::size_t w = 0; w < c.waits.size(); ++w)
    {
        os << (w ? ", " : "") << "\"";
        for (auto const& ws : c.waits[w]) os << form_names[ws.form] << "->gen" << ws.target << " ";
        os << "\"";
    }
    os << "], \"generations\": [";
    for (int g = 0; g < c.gens; ++g)
        os << (g ? ", " : "") << "\"" << (c.notify_kind[static_cast<std::size_t>(g)] ? "notify_one" : "notify_all") << (c.notify_under_lock[static_cast<std::size_t>(g)] ? " under lock" : " after unlock") << "\"";
    os << "], \"request_stop_after_generation\": " << c.stopper_at << ", \"schedule_tape_from\": " << t.pos << "}";
    return os.str();
}

static Outcome run(tape_t const& tape)
{
    Tape t(tape);
    Case c = decode(t);
    vt::install_vt_hook();
    vt::Sched s;
    s.discard_on_stale_timed = c.avoid_stale;    // (F12 shape: run not judged; timeouts race notifications freely otherwise)
    TrackedLock L;
    pika::condition_variable_any cv;
    pika::stop_source ss;
    int gen = 0;    // protected by L
    long long blocked = 0, timed_notified = 0;
    std::string fail, fail_oracle;
    auto set_fail = [&](char const* o, std::string m) {
        if (fail.empty()) { fail_oracle = o; fail = std::move(m); }
    };
    std::string fail_shape;

    // notifier thread: publishes the generations in order
    s.add([&] {
        for (int g = 1; g <= c.gens; ++g)
        {
            {
                std::unique_lock<TrackedLock> l(L);
                gen = g;
                if (c.notify_under_lock[static_cast<std::size_t>(g - 1)])
                {
                    if (c.notify_kind[static_cast<std::size_t>(g - 1)]) cv.notify_one(); else cv.notify_all();
                }
            }
            if (!c.notify_under_lock[static_cast<std::size_t>(g - 1)])
            {
                if (c.notify_kind[static_cast<std::size_t>(g - 1)]) cv.notify_one(); else cv.notify_all();
            }
            if (c.stopper_at == g) ss.request_stop();
            vt::step();
        }
        if (c.stopper_at == 0 || c.stopper_at > c.gens) ss.request_stop();
        else if (c.stopper_at < 0) { /* no stop-token waits in this case */ }
    });
    for (int w = 0; w < c.nwaiters; ++w)
    {
        s.add([&, w] {
            for (auto const& ws : c.waits[static_cast<std::size_t>(w)])
            {
                for (int k = 0; k < ws.pre_steps; ++k) vt::step();
                std::unique_lock<TrackedLock> l(L);
                auto pred = [&] { return gen >= ws.target; };
                long long sw = s.switches;
                long long to0 = s.timeouts_fired;
                switch (ws.form)
                {
                case W_PRED:
                    cv.wait(l, pred);
                    if (!pred()) set_fail("pred_false_on_return", "wait(l,pred) returned with pred()==false");
                    break;
                case W_FOR_INF_PRED:
                {
                    bool r = cv.wait_for(l, std::chrono::hours(24 * 365), pred);
                    if (r != pred()) set_fail("timed_pred_result", "wait_for(l,inf,pred) returned " + std::to_string(r) + " but pred() is " + std::to_string(pred()));
                    if (!r) { set_fail("timed_wait_timeout_without_deadline", "wait_for(l,inf,pred) returned false although its deadline cannot pass"); fail_shape = s.switches != sw ? "slept" : "did_not_sleep"; }
                    break;
                }
                case W_UNTIL_FINITE_PRED:
                {
                    bool r = cv.wait_until(l, std::chrono::steady_clock::now() + std::chrono::milliseconds(50), pred);
                    if (r != pred()) set_fail("timed_pred_result", "wait_until(l,finite,pred) returned " + std::to_string(r) + " but pred() is " + std::to_string(pred()));
                    if (!r && s.timeouts_fired == to0)
                    {
                        set_fail("timed_wait_timeout_without_deadline", "wait_until(l,finite,pred) returned false although the scheduler never let its deadline pass");
                        fail_shape = s.switches != sw ? "slept" : "did_not_sleep";
                    }
                    break;
                }
                case W_UNTIL_INF_NOPRED:
                    while (!pred())
                    {
                        long long sw2 = s.switches;
                        auto st = cv.wait_until(l, std::chrono::steady_clock::now() + std::chrono::hours(24 * 365));
                        if (st == pika::cv_status::timeout)
                        {
                            set_fail("timed_wait_timeout_without_deadline", "wait_until(l,inf) reported cv_status::timeout although its deadline cannot pass (it was notified or woken spuriously)");
                            fail_shape = s.switches != sw2 ? "slept" : "did_not_sleep";
                            break;
                        }
                        if (L.owner != vt::self()) { set_fail("lock_not_owned_on_return", "wait_until returned without owning the user lock"); break; }
                        ++timed_notified;
                    }
                    break;
                case W_STOP_PRED:
                {
                    bool r = cv.wait(l, ss.get_token(), pred);
                    if (r != pred()) set_fail("stop_wait_result", "wait(l,stoken,pred) returned " + std::to_string(r) + " but pred() is " + std::to_string(pred()));
                    if (!r && !ss.stop_requested()) set_fail("stop_wait_early", "wait(l,stoken,pred) returned false although stop was not requested");
                    break;
                }
                case W_PLAIN_LOOP:
                    while (!pred())
                    {
                        cv.wait(l);
                        if (L.owner != vt::self()) { set_fail("lock_not_owned_on_return", "wait(l) returned without owning the user lock"); break; }
                    }
                    break;
                }
                if (s.switches != sw) ++blocked;
                if (L.owner != vt::self()) set_fail("lock_not_owned_on_return", std::string(form_names[ws.form]) + " returned without owning the user lock");
            }
        });
    }
    s.diagnose = [&] {
        return "generation published so far: " + std::to_string(gen) + " of " + std::to_string(c.gens) +
            "; every waiter's predicate becomes true at a published generation and every generation is followed by a notify that reaches all possible waiters";
    };
    s.run(t);
    if (s.must_discard()) { Outcome dsc; dsc.kind = Outcome::DISCARD; dsc.counters["avoided"] = 1; return dsc; }
    Outcome out;
    if (!fail.empty())
    {
        out = Outcome::fail(fail_oracle, fail);
        if (!fail_shape.empty()) out.tags.push_back("sig:" + fail_shape);
    }
    out.counters["decisions"] = s.decisions;
    out.counters["switches"] = s.switches;
    out.counters["waits_that_blocked"] = blocked;
    out.counters["wakeups_before_suspension"] = s.tokens_consumed;
    out.counters["timeouts_fired"] = s.timeouts_fired;
    out.counters["avoided"] = s.excluded_timeout_choices;
    out.nontrivial = s.tokens_consumed > 0 || timed_notified > 0;
    if (s.tokens_consumed) out.tags.push_back("saw:notify_between_unlock_and_suspend");
    if (timed_notified) out.tags.push_back("saw:timed_wait_notified");
    if (blocked) out.tags.push_back("saw:waiter_blocked");
    if (s.timeouts_fired) out.tags.push_back("saw:timeout_fired");
    for (auto const& ws : c.waits) for (auto const& w : ws) out.tags.push_back(std::string("form:") + form_names[w.form]);
    return out;
}

int main(int argc, char** argv)
{
    Target T;
    T.property = "C07";
    T.engine = "E-vt";
    T.forked = true;
    T.tape_scale = 3;
    T.child_timeout_s = 30;
    T.describe = describe;
    T.run = run;
    T.signature = [](tape_t const&, Outcome const& o) {
        std::string shape;
        for (auto const& tg : o.tags) if (tg.rfind("sig:", 0) == 0) shape = ", \"shape\": " + jstr(tg.substr(4));
        return std::string("{\"oracle\": ") + jstr(o.oracle) + shape + "}";
    };
    return target_main(argc, argv, T);
}
