// C10 — work runs where it was sent: scheduler, pool and hint placement.   Engine: E-rt.
#include "rt.hpp"

#include <pika/execution.hpp>
#include <pika/executors/std_thread_scheduler.hpp>
#include <pika/semaphore.hpp>
#include <pika/threading_base/thread_num_tss.hpp>

#include <sys/syscall.h>

#include <mutex>
#include <set>

using namespace vf;
using namespace vf::rt;

static int const pool_policies[] = {0, 1, 2, 3, 4, 5, 6};    // resource::scheduling_policy values (shared_priority excluded: see C13 F10)
static char const* const pool_policy_names[] = {"local", "local_priority_fifo", "local_priority_lifo", "static", "static_priority", "abp_priority_fifo", "abp_priority_lifo"};

enum HopKind { H_SCHEDULE, H_CONTINUES_ON, H_TRANSFER_JUST, H_BULK, H_STD_THREAD };
static char const* const hop_names[] = {"schedule", "continues_on", "transfer_just", "bulk", "std_thread_scheduler"};
enum BodyK { B_NONE, B_YIELD, B_SUSPEND, B_YIELD_SUSPEND };
static char const* const body_names[] = {"-", "yield x3", "suspend", "yield+suspend+yield"};

struct Hop
{
    int kind = 0, pool = 0, hint = -1, prio = 0, body = 0;
};
struct Job
{
    bool from_task = false;    // submitted from a task of pool `submit_pool` (else from the main OS thread)
    int submit_pool = 0;
    bool via_execute = false;    // single hop fire-and-forget through ex::execute
    std::vector<Hop> hops;
};
struct PoolSpec
{
    int policy = 1, size = 1;
};
struct Case
{
    RtConfig cfg;
    std::vector<PoolSpec> pools;
    std::vector<Job> jobs;
    bool focus = false;
    // the application switches work stealing off and on again for all pools at run time (scheduler_base::remove/add_scheduler_mode):
    // a static policy stays a static policy
    bool toggle_stealing = false;
};

static Case decode(tape_t const& tape)
{
    Tape t(tape);
    Case c;
    c.cfg = decode_config(t, {S_SL_AFTER_RUN, S_DO_YIELD, S_STS_BEFORE_SCHEDULE, S_CV_WAIT, S_STS_ENTRY, S_STS_ENTRY});
    int np = 1 + t.weighted({2, 4, 3, 2});
    int total = 0;
    for (int i = 0; i < np; ++i)
    {
        PoolSpec p;
        p.policy = static_cast<int>(t.below(7));
        p.size = 1 + t.weighted({3, 3, 3, 1});
        total += p.size;
        c.pools.push_back(p);
    }
    if (total > 14) { for (auto& p : c.pools) p.size = std::max(1, p.size - 1); total = 0; for (auto& p : c.pools) total += p.size; }
    c.cfg.workers = total;
    int nj = 1 + static_cast<int>(t.below(7));
    for (int j = 0; j < nj; ++j)
    {
        Job job;
        job.from_task = t.chance(1, 2);
        job.submit_pool = static_cast<int>(t.below(static_cast<std::uint32_t>(np)));
        job.via_execute = t.chance(1, 5);
        int nh = job.via_execute ? 1 : 1 + t.weighted({2, 3, 3, 2, 1});
        for (int h = 0; h < nh; ++h)
        {
            Hop hop;
            hop.kind = h == 0 ? t.weighted({5, 0, 3, 0, 1}) : t.weighted({0, 6, 0, 2, 1});
            if (job.via_execute) hop.kind = H_SCHEDULE;
            hop.pool = static_cast<int>(t.below(static_cast<std::uint32_t>(np)));
            int psz = c.pools[static_cast<std::size_t>(hop.pool)].size;
            hop.hint = t.chance(1, 2) ? static_cast<int>(t.below(static_cast<std::uint32_t>(psz))) : -1;
            hop.prio = t.weighted({6, 1, 1});    // normal, high, low
            hop.body = t.weighted({3, 3, 3, 2});
            if (hop.kind == H_BULK || hop.kind == H_STD_THREAD) hop.body = B_NONE;
            job.hops.push_back(hop);
        }
        c.jobs.push_back(std::move(job));
    }
    // focus template for the static-hint clause: one pool gets a static policy, most hops are sent there with a
    // worker hint at normal priority and suspend inside, and the wake-up path (set_thread_state entry, cv wait,
    // before the state CAS) gets a mandatory delay, so that wake-ups overlap the suspension they answer
    c.focus = t.chance(1, 4);
    if (c.focus)
    {
        int sp = static_cast<int>(t.below(static_cast<std::uint32_t>(np)));
        c.pools[static_cast<std::size_t>(sp)].policy = t.pick({3, 4});
        int psz = c.pools[static_cast<std::size_t>(sp)].size;
        for (auto& job : c.jobs)
            for (auto& hop : job.hops)
            {
                if (hop.kind == H_BULK || hop.kind == H_STD_THREAD || !t.chance(2, 3)) continue;
                hop.pool = sp;
                hop.hint = static_cast<int>(t.below(static_cast<std::uint32_t>(psz)));
                hop.prio = 0;
                hop.body = t.pick({B_SUSPEND, B_YIELD_SUSPEND, B_SUSPEND, B_YIELD});
            }
        Perturb p;
        p.site = t.pick({S_STS_ENTRY, S_STS_ENTRY, S_CV_WAIT, S_STS_BEFORE_CAS, S_STS_BEFORE_SCHEDULE});
        p.period = 1;
        p.action = t.pick({0, 2});
        p.dur = 2 + static_cast<int>(t.below(4));
        c.cfg.plan.push_back(p);
    }
    c.toggle_stealing = t.chance(1, 4);
    return c;
}

static std::string describe(tape_t const& tape)
{
    Case c = decode(tape);
    std::ostringstream os;
    os << "{\"pools\": [";
    for (std::size_t i = 0; i < c.pools.size(); ++i) os << (i ? ", " : "") << "\"" << pool_policy_names[c.pools[i].policy] << " x" << c.pools[i].size << "\"";
    os << "], \"jobs\": [";
    for (std::size_t j = 0; j < c.jobs.size(); ++j)
    {
        auto const& job = c.jobs[j];
        os << (j ? ", " : "") << "\"from " << (job.from_task ? "task@pool" + std::to_string(job.submit_pool) : std::string("main")) << (job.via_execute ? " execute" : "") << ": ";
        for (auto const& h : job.hops)
            os << hop_names[h.kind] << "(p" << h.pool << (h.hint >= 0 ? ",hint" + std::to_string(h.hint) : "") << (h.prio == 1 ? ",high" : h.prio == 2 ? ",low" : "") << ")[" << body_names[h.body] << "] ";
        os << "\"";
    }
    os << "], \"plan\": [";
    for (std::size_t i = 0; i < c.cfg.plan.size(); ++i)
        os << (i ? ", " : "") << "\"site" << c.cfg.plan[i].site << "/" << c.cfg.plan[i].period << "/" << (c.cfg.plan[i].action == 0 ? "spin" : c.cfg.plan[i].action == 1 ? "yield" : "sleep") << "/" << dur_ns[c.cfg.plan[i].dur] << "ns\"";
    os << "], \"static_hint_focus\": " << (c.focus ? "true" : "false") << ", \"stealing_mode_toggled_at_run_time\": " << (c.toggle_stealing ? "true" : "false") << ", \"stealing\": " << (c.cfg.stealing ? "true" : "false") << "}";
    return os.str();
}

// ------------------------------------------------------------------------------------------------
struct World
{
    Case const* c = nullptr;
    std::vector<pika::threads::detail::thread_pool_base*> pools;
    std::mutex m;
    std::set<long> worker_tids, std_thread_tids;
    long main_tid = 0;
    std::atomic<long long> hops_run{0}, phases_checked{0}, hinted_static_phases{0}, pool_crossings{0};
    pika::counting_semaphore<> side{0};
};

static long gettid_() { return static_cast<long>(syscall(SYS_gettid)); }

// Every activation of a task on a worker gets a fresh serial number (hook before the coroutine call).
// A callable that observes the serial of the activation that submitted it runs nested inside the
// submitting call; a properly scheduled task always starts in a new activation.  (Task ids cannot be
// used for this: a finished submitter's thread object may be recycled for the new task.)
static std::atomic<unsigned long long> g_serial{0};
static thread_local unsigned long long tl_activation = 0;

static ex::thread_pool_scheduler sched_for(World& W, Hop const& h)
{
    ex::thread_pool_scheduler s{W.pools[static_cast<std::size_t>(h.pool)]};
    using P = pika::execution::thread_priority;
    s = ex::with_priority(s, h.prio == 0 ? P::normal : h.prio == 1 ? P::high : P::low);
    if (h.hint >= 0) s = ex::with_hint(s, pika::execution::thread_schedule_hint(static_cast<std::int16_t>(h.hint)));
    return s;
}

// executed inside every pool hop: checks the placement at entry and after every re-activation
static void hop_body(World& W, int job, int hop_idx, unsigned long long submit_activation, long submit_tid)
{
    Hop const& h = W.c->jobs[static_cast<std::size_t>(job)].hops[static_cast<std::size_t>(hop_idx)];
    PoolSpec const& ps = W.c->pools[static_cast<std::size_t>(h.pool)];
    auto where = [&] { return "job " + std::to_string(job) + " hop " + std::to_string(hop_idx) + " (" + hop_names[h.kind] + " on pool " + std::to_string(h.pool) + " " + pool_policy_names[ps.policy] + ")"; };
    auto self = pika::threads::detail::get_self_id();
    if (self == pika::threads::detail::invalid_thread_id) fail_now("not_a_task", where() + ": the callable does not run as a pika task");
    if (submit_activation != 0 && tl_activation == submit_activation)
        fail_now("ran_inside_submit", where() + ": the callable ran nested inside the task activation that submitted it / completed the previous hop, not as new work on the target scheduler");
    if (submit_tid != 0 && submit_activation == 0 && gettid_() == submit_tid)
        fail_now("ran_inside_submit", where() + ": the callable ran on the submitting OS thread");
    bool static_hint = (ps.policy == 3 || ps.policy == 4) && h.prio == 0 && h.hint >= 0;
    auto check = [&](char const* phase) {
        std::size_t pool = pika::threads::detail::get_thread_pool_num_tss();
        std::size_t lw = pika::get_local_worker_thread_num();
        W.phases_checked.fetch_add(1);
        if (static_cast<int>(pool) != h.pool)
            fail_now("wrong_pool", where() + ": phase '" + phase + "' ran on a worker of pool " + std::to_string(pool));
        if (&pika::resource::get_thread_pool(pool) != W.pools[static_cast<std::size_t>(h.pool)])
            fail_now("wrong_pool", where() + ": pool object mismatch");
        if (static_hint)
        {
            W.hinted_static_phases.fetch_add(1);
            if (static_cast<int>(lw) != h.hint)
                fail_now("hint_not_honoured", where() + ": static policy, normal priority, hint " + std::to_string(h.hint) + ", but phase '" + phase + "' ran on local worker " + std::to_string(lw) +
                        " [hook events of this task: " + dump_trace(pika::threads::detail::get_thread_id_data(self)) + "]");
        }
        {
            std::lock_guard<std::mutex> l(W.m);
            W.worker_tids.insert(gettid_());
        }
    };
    check("entry");
    if (h.body == B_YIELD || h.body == B_YIELD_SUSPEND)
        for (int k = 0; k < 3; ++k) { pika::this_thread::yield(); check("after yield"); }
    if (h.body == B_SUSPEND || h.body == B_YIELD_SUSPEND)
    {
        // woken from a task of pool 0 (the default pool)
        ex::execute(ex::thread_pool_scheduler{W.pools[0]}, [&W] { pika::this_thread::yield(); W.side.release(1); });
        W.side.acquire();
        check("after suspension");
        if (h.body == B_YIELD_SUSPEND) { pika::this_thread::yield(); check("after suspension+yield"); }
    }
    W.hops_run.fetch_add(1);
}

static void std_thread_body(World& W, int job, int hop_idx)
{
    auto where = "job " + std::to_string(job) + " hop " + std::to_string(hop_idx) + " (std_thread_scheduler)";
    if (pika::threads::detail::get_self_id() != pika::threads::detail::invalid_thread_id) fail_now("std_thread_is_task", where + ": runs as a pika task");
    long tid = gettid_();
    std::lock_guard<std::mutex> l(W.m);
    if (tid == W.main_tid) fail_now("std_thread_not_fresh", where + ": ran on the main thread");
    if (W.worker_tids.count(tid)) fail_now("std_thread_on_worker", where + ": ran on a pika worker thread");
    if (!W.std_thread_tids.insert(tid).second) { /* the OS may reuse a tid after a thread ended: not judged */ }
    W.hops_run.fetch_add(1);
}

using vsender = ex::unique_any_sender<>;

static vsender build_job(World& W, int j)
{
    Job const& job = W.c->jobs[static_cast<std::size_t>(j)];
    vsender s;
    // identity of the submitter of the first hop is captured when the job is started
    bool in_task = pika::threads::detail::get_self_id() != pika::threads::detail::invalid_thread_id;
    unsigned long long submitter = in_task ? tl_activation : 0;
    long submit_tid = gettid_();
    for (std::size_t h = 0; h < job.hops.size(); ++h)
    {
        Hop const& hop = job.hops[h];
        int hi = static_cast<int>(h);
        // a continuation after a scheduler transition must not run in the task that completed the previous hop
        auto prev = std::make_shared<unsigned long long>(h == 0 ? submitter : 0ull);
        long st = h == 0 ? submit_tid : 0;
        switch (hop.kind)
        {
        case H_SCHEDULE:
            s = vsender(ex::then(ex::schedule(sched_for(W, hop)), [&W, j, hi, prev, st] { hop_body(W, j, hi, *prev, st); }));
            break;
        case H_TRANSFER_JUST:
            s = vsender(ex::then(ex::transfer_just(sched_for(W, hop), 7), [&W, j, hi, prev, st](int v) {
                if (v != 7) fail_now("value_changed", "transfer_just delivered a different value");
                hop_body(W, j, hi, *prev, st);
            }));
            break;
        case H_CONTINUES_ON:
        {
            // remember which task ran the end of the previous hop
            auto mark = ex::then(std::move(s), [prev] { *prev = pika::threads::detail::get_self_id() != pika::threads::detail::invalid_thread_id ? tl_activation : 0ull; });
            s = vsender(ex::then(ex::continues_on(std::move(mark), sched_for(W, hop)), [&W, j, hi, prev] { hop_body(W, j, hi, *prev, 0); W.pool_crossings.fetch_add(1); }));
            break;
        }
        case H_BULK:
        {
            auto on = ex::continues_on(std::move(s), sched_for(W, hop));
            int pool = hop.pool;
            // the chunk tasks of a bulk on a hinted scheduler carry that hint: under a static policy every index runs on the hinted worker
            int want_worker = ((W.c->pools[static_cast<std::size_t>(pool)].policy == 3 || W.c->pools[static_cast<std::size_t>(pool)].policy == 4) && hop.prio == 0) ? hop.hint : -1;
            s = vsender(ex::bulk(std::move(on), 24, [&W, pool, j, hi, want_worker](int) {
                if (static_cast<int>(pika::threads::detail::get_thread_pool_num_tss()) != pool)
                    fail_now("wrong_pool", "job " + std::to_string(j) + " hop " + std::to_string(hi) + " (bulk): an index ran on pool " + std::to_string(pika::threads::detail::get_thread_pool_num_tss()) + ", expected " + std::to_string(pool));
                if (want_worker >= 0)
                {
                    W.hinted_static_phases.fetch_add(1);
                    if (static_cast<int>(pika::get_local_worker_thread_num()) != want_worker)
                        fail_now("hint_not_honoured", "job " + std::to_string(j) + " hop " + std::to_string(hi) + " (bulk on a scheduler with hint " + std::to_string(want_worker) +
                                ", static policy, normal priority): an index ran on local worker " + std::to_string(pika::get_local_worker_thread_num()));
                }
                // (long enough that the other chunk tasks of the bulk get to take indices as well)
                { struct timespec a, b; clock_gettime(CLOCK_MONOTONIC, &a); do { clock_gettime(CLOCK_MONOTONIC, &b); } while ((b.tv_sec - a.tv_sec) * 1000000000ll + (b.tv_nsec - a.tv_nsec) < 20000); }
                W.phases_checked.fetch_add(1);
            }));
            break;
        }
        case H_STD_THREAD:
        {
            ex::std_thread_scheduler sts{};
            if (h == 0) s = vsender(ex::then(ex::schedule(sts), [&W, j, hi] { std_thread_body(W, j, hi); }));
            else s = vsender(ex::then(ex::continues_on(std::move(s), sts), [&W, j, hi] { std_thread_body(W, j, hi); }));
            break;
        }
        }
    }
    return s;
}

static Outcome run(tape_t const& tape)
{
    Case c = decode(tape);
    restrict_cpus(0);
    enable_recorder();
    install_hook(c.cfg);
    G().user_hook = [](int site, void const*, std::uint64_t, std::uint64_t) {
        if (site == S_SL_BEFORE_RUN) tl_activation = g_serial.fetch_add(1) + 1;
    };
    World W;
    W.c = &c;
    W.main_tid = gettid_();
    pika::init_params ip;
    ip.rp_callback = [&](pika::resource::partitioner& rp, pika::program_options::variables_map const&) {
        // pool 0 is the default pool; the others get their PUs explicitly
        std::vector<pika::resource::pu const*> pus;
        for (auto const& d : rp.sockets())
            for (auto const& co : d.cores())
                for (auto const& p : co.pus()) pus.push_back(&p);
        std::size_t next = static_cast<std::size_t>(c.pools[0].size);
        for (std::size_t i = 1; i < c.pools.size(); ++i)
        {
            std::string name = "pool" + std::to_string(i);
            unsigned mode = 0x001 | 0x010 | 0x080;
            if (c.cfg.stealing) mode |= 0x004 | 0x008;
            rp.create_thread_pool(name, static_cast<pika::resource::scheduling_policy>(pool_policies[c.pools[i].policy]), static_cast<pika::threads::scheduler_mode>(mode));
            for (int k = 0; k < c.pools[i].size && next < pus.size(); ++k) rp.add_resource(*pus[next++], name);
        }
    };
    // the default pool takes the remaining threads and the policy of pool 0
    RtConfig cfg = c.cfg;
    cfg.policy = c.pools[0].policy == 0 ? 2 : c.pools[0].policy == 1 ? 0 : c.pools[0].policy == 2 ? 1 : c.pools[0].policy;    // map rp policy -> name table of rt.hpp
    {
        static ArgvHolder ah;
        ah.s = config_args(cfg);
        ah.build();
        pika::start(nullptr, static_cast<int>(ah.s.size()), ah.p.data(), ip);
    }
    W.pools.push_back(&pika::resource::get_thread_pool("default"));
    for (std::size_t i = 1; i < c.pools.size(); ++i) W.pools.push_back(&pika::resource::get_thread_pool("pool" + std::to_string(i)));
    for (std::size_t i = 0; i < c.pools.size(); ++i)
        if (static_cast<int>(W.pools[i]->get_os_thread_count()) != c.pools[i].size)
        {
            Outcome o;
            o.kind = Outcome::DISCARD;    // layout not realisable on this machine
            o.msg = "pool size mismatch";
            pika::finalize();
            pika::stop();
            return o;
        }
    if (c.toggle_stealing)
        for (auto* pool : W.pools)
        {
            auto* sched = pool->get_scheduler();
            sched->remove_scheduler_mode(pika::threads::scheduler_mode::enable_stealing);
            sched->add_scheduler_mode(pika::threads::scheduler_mode::enable_stealing);
        }
    Quiescence q;
    q.start();
    std::atomic<int> jobs_done{0};
    long long expected_hops = 0;
    for (auto const& job : c.jobs) for (auto const& h : job.hops) expected_hops += h.kind == H_BULK ? 0 : 1;
    G().diagnose = [&] { return "jobs done " + std::to_string(jobs_done.load()) + "/" + std::to_string(c.jobs.size()); };
    for (std::size_t j = 0; j < c.jobs.size(); ++j)
    {
        Job const& job = c.jobs[j];
        int ji = static_cast<int>(j);
        auto launch = [&W, ji, &jobs_done, &job] {
            if (job.via_execute)
            {
                bool in_task = pika::threads::detail::get_self_id() != pika::threads::detail::invalid_thread_id;
                unsigned long long submitter = in_task ? tl_activation : 0;
                long st = gettid_();
                ex::execute(sched_for(W, job.hops[0]), [&W, ji, submitter, st, &jobs_done] { hop_body(W, ji, 0, submitter, st); jobs_done.fetch_add(1); });
            }
            else ex::start_detached(ex::then(build_job(W, ji), [&jobs_done] { jobs_done.fetch_add(1); }));
        };
        if (job.from_task) ex::execute(ex::thread_pool_scheduler{W.pools[static_cast<std::size_t>(job.submit_pool)]}, launch);
        else launch();
    }
    {
        MainWaiting mw;
        // std_thread_scheduler work is not counted by pika::wait(): wait for the job counter as well
        while (jobs_done.load() < static_cast<int>(c.jobs.size()))
        {
            pika::wait();
            struct timespec ts { 0, 200000 };
            nanosleep(&ts, nullptr);
        }
        pika::wait();
    }
    Outcome out;
    if (W.hops_run.load() != expected_hops) out = Outcome::fail("hops_incomplete", std::to_string(W.hops_run.load()) + " of " + std::to_string(expected_hops) + " hops ran");
    q.enter_stop_mode([] { return true; });
    stop_runtime();
    q.finish();
    add_monitor_counters(out);
    out.counters["phases_checked"] = W.phases_checked.load();
    out.counters["hinted_static_phases"] = W.hinted_static_phases.load();
    out.counters["pool_crossings"] = W.pool_crossings.load();
    std::set<int> pol;
    for (auto const& p : c.pools) pol.insert(p.policy);
    out.nontrivial = (c.pools.size() >= 2 && pol.size() >= 2 && W.pool_crossings.load() >= 2) || W.hinted_static_phases.load() >= 3;
    out.tags.push_back("pools:" + std::to_string(c.pools.size()));
    if (c.focus) out.tags.push_back("template:static_hint_focus");
    if (c.toggle_stealing) out.tags.push_back("has:stealing_mode_toggled");
    if (W.hinted_static_phases.load() >= 3) out.tags.push_back("saw:hinted_static_task_3_phases");
    if (W.pool_crossings.load() >= 2) out.tags.push_back("saw:pipeline_crossing_pools_twice");
    for (auto const& p : c.pools) out.tags.push_back(std::string("policy:") + pool_policy_names[p.policy]);
    return out;
}

int main(int argc, char** argv)
{
    Target T;
    T.property = "C10";
    T.engine = "E-rt";
    T.forked = true;
    T.tape_scale = 3;
    T.child_timeout_s = 60;
    T.describe = describe;
    T.run = run;
    T.signature = [](tape_t const&, Outcome const& o) { return std::string("{\"oracle\": ") + jstr(o.oracle) + "}"; };
    return target_main(argc, argv, T);
}
