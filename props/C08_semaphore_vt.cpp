// C08 — semaphores conserve permits and release blocked acquirers.   Engine: E-vt (deterministic
// schedules over the real counting_semaphore / sliding_semaphore running on harness agents).
#include "vt.hpp"

#include <pika/semaphore.hpp>
#include <pika/synchronization/sliding_semaphore.hpp>

using namespace vf;

enum OpK { O_RELEASE, O_ACQUIRE, O_TRY, O_TRY_FOR_INF, O_TRY_FOR_FINITE, O_TRY_UNTIL_FINITE, O_STEP };
static char const* const op_names[] = {"release", "acquire", "try_acquire", "try_acquire_for(inf)", "try_acquire_for(finite)", "try_acquire_until(finite)", "step"};
struct Op
{
    int k, n;
};
struct Case
{
    int mode = 0;    // 0 counting, 1 binary-ish (counting<1>), 2 sliding
    int initial = 0;
    std::vector<std::vector<Op>> th;
    // sliding
    int max_diff = 1, lower0 = 0;
    std::vector<std::vector<int>> sl;    // per thread: >0 wait(u), <0 signal(-v), 0 try_wait(1)
    bool avoid_f1 = false;
    bool avoid_stale = false;
};

static bool avoid(char const* name)
{
    char const* e = std::getenv("VERIF_AVOID");
    return e && std::strstr(e, name) != nullptr;
}

static Case decode(Tape& t)
{
    Case c;
    c.avoid_f1 = avoid("timed_acquire_signaled");
    c.avoid_stale = avoid("stale_wakeup_timed");
    c.mode = t.weighted({5, 1, 3});
    int nth = 2 + static_cast<int>(t.below(3));
    if (c.mode == 2)
    {
        c.max_diff = 1 + static_cast<int>(t.below(4));
        c.lower0 = static_cast<int>(t.below(3));
        int nsig = 1 + static_cast<int>(t.below(6));    // signalled lower limits lower0+1 .. lower0+nsig
        c.sl.resize(static_cast<std::size_t>(nth));
        // thread 0 signals the limits lower0+1 .. lower0+nsig in a generated order (never blocks): completions of
        // work items arrive out of order, the window must only ever move forward
        {
            std::vector<int> vals;
            for (int v = 1; v <= nsig; ++v) vals.push_back(c.lower0 + v);
            for (int i = nsig - 1; i > 0; --i) std::swap(vals[static_cast<std::size_t>(i)], vals[t.below(static_cast<std::uint32_t>(i + 1))]);
            for (int v : vals) c.sl[0].push_back(-v);
            if (t.chance(1, 3)) c.sl[0].push_back(-(c.lower0 + 1));    // a stale, repeated signal at the end
        }
        // the signalling thread may widen the window (set_max_difference keeps the lower limit it has reached) somewhere before its
        // last signal: waiters that are already blocked must see the new distance at their next wake-up
        int final_diff = c.max_diff;
        if (t.chance(1, 3))
        {
            final_diff = c.max_diff + 1 + static_cast<int>(t.below(3));
            std::size_t pos = t.below(static_cast<std::uint32_t>(c.sl[0].size()));    // before the op at `pos`: at least one signal follows
            c.sl[0].insert(c.sl[0].begin() + static_cast<long>(pos), 3000 + final_diff);
        }
        int maxu = c.lower0 + nsig + final_diff;    // every wait(u<=maxu) is eventually satisfiable
        for (int i = 1; i < nth; ++i)
        {
            int n = 1 + static_cast<int>(t.below(4));
            for (int k = 0; k < n; ++k)
            {
                if (t.chance(1, 5)) c.sl[static_cast<std::size_t>(i)].push_back(t.chance(1, 2) ? 0 : 1000 + 1 + static_cast<int>(t.below(static_cast<std::uint32_t>(maxu))));    // try_wait(1) / try_wait(u)
                else c.sl[static_cast<std::size_t>(i)].push_back(1 + static_cast<int>(t.below(static_cast<std::uint32_t>(maxu))));
            }
        }
        return c;
    }
    c.initial = c.mode == 1 ? static_cast<int>(t.below(2)) : static_cast<int>(t.below(4));
    c.th.resize(static_cast<std::size_t>(nth));
    long long attempts = 0, supply = c.initial;
    // thread 0 is a pure releaser (never blocks); the others mix
    for (int i = 0; i < nth; ++i)
    {
        int n = 1 + static_cast<int>(t.below(5));
        for (int k = 0; k < n; ++k)
        {
            Op o;
            if (i == 0) o.k = t.weighted({5, 0, 1, 0, 1, 0, 2});
            else o.k = t.weighted({2, 4, 2, 3, 2, 1, 1});
            if (c.avoid_f1 && (o.k == O_TRY_FOR_INF || o.k == O_TRY_FOR_FINITE || o.k == O_TRY_UNTIL_FINITE)) o.k = O_ACQUIRE;
            if (i == 0 && o.k == O_ACQUIRE) o.k = O_TRY;
            o.n = o.k == O_RELEASE ? 1 + static_cast<int>(t.below(3)) : 1;
            if (c.mode == 1 && o.k == O_RELEASE) o.n = 1;
            if (o.k == O_RELEASE && i == 0) supply += o.n;    // only the never-blocking thread's releases are guaranteed to happen
            else if (o.k != O_STEP) attempts += 1;
            c.th[static_cast<std::size_t>(i)].push_back(o);
        }
    }
    // supply >= every acquisition attempt: no blocking acquire can be starved for ever
    if (supply < attempts)
    {
        long long need = attempts - supply;
        while (need > 0)
        {
            int n = c.mode == 1 ? 1 : static_cast<int>(std::min<long long>(need, 3));
            c.th[0].push_back({O_RELEASE, n});
            need -= n;
        }
    }
    return c;
}

static std::string describe(tape_t const& tape)
{
    Tape t(tape);
    Case c = decode(t);
    std::ostringstream os;
    if (c.mode == 2)
    {
        os << "{\"kind\": \"sliding_semaphore\", \"max_difference\": " << c.max_diff << ", \"lower_limit\": " << c.lower0 << ", \"threads\": [";
        for (std::size_t i = 0; i < c.sl.size(); ++i)
        {
            os << (i ? ", " : "") << "\"";
            for (int v : c.sl[i])
            {
                if (v >= 3000) os << "set_max_difference(" << v - 3000 << ") ";
                else if (v > 1000) os << "try_wait(" << v - 1000 << ") ";
                else if (v > 0) os << "wait(" << v << ") ";
                else if (v < 0) os << "signal(" << -v << ") ";
                else os << "try_wait(1) ";
            }
            os << "\"";
        }
        os << "]";
    }
    else
    {
        os << "{\"kind\": \"" << (c.mode == 1 ? "counting_semaphore<1>" : "counting_semaphore<>") << "\", \"initial\": " << c.initial << ", \"threads\": [";
        for (std::size_t i = 0; i < c.th.size(); ++i)
        {
            os << (i ? ", " : "") << "\"";
            for (auto const& o : c.th[i])
            {
                os << op_names[o.k];
                if (o.k == O_RELEASE) os << "(" << o.n << ")";
                os << " ";
            }
            os << "\"";
        }
        os << "]";
    }
    os << ", \"schedule_tape_from\": " << t.pos << "}";
    return os.str();
}

template <typename Sem>
static Outcome run_counting(Case const& c, Tape& t)
{
    vt::Sched s;
    s.discard_on_stale_timed = c.avoid_stale;    // (F12 shape: run not judged; timeouts race notifications freely otherwise)
    Sem sem(c.initial);
    long long release_started = 0, release_done = 0, acquired = 0, blocked_then_released = 0, timed_slept = 0;
    bool fail_slept = false;
    std::string fail;
    std::string fail_oracle;
    auto on_success = [&](char const* what) {
        ++acquired;
        if (acquired > c.initial + release_started && fail.empty())
        {
            fail_oracle = "permit_invented";
            fail = std::string(what) + " succeeded: " + std::to_string(acquired) + " acquisitions but only " + std::to_string(c.initial) +
                " initial + " + std::to_string(release_started) + " released permits exist";
        }
    };
    for (std::size_t i = 0; i < c.th.size(); ++i)
    {
        s.add([&, i] {
            for (auto const& o : c.th[i])
            {
                vt::LThread& me = *s.ts[i];
                switch (o.k)
                {
                case O_RELEASE:
                    release_started += o.n;
                    sem.release(o.n);
                    release_done += o.n;
                    break;
                case O_ACQUIRE:
                {
                    long long sw = s.switches;
                    sem.acquire();
                    if (s.switches != sw) ++blocked_then_released;
                    on_success("acquire");
                    break;
                }
                case O_TRY:
                    if (sem.try_acquire()) on_success("try_acquire");
                    break;
                case O_TRY_FOR_INF:
                case O_TRY_FOR_FINITE:
                case O_TRY_UNTIL_FINITE:
                {
                    long long to0 = s.timeouts_fired;
                    long long sw = s.switches;
                    bool r;
                    if (o.k == O_TRY_FOR_INF) r = sem.try_acquire_for(std::chrono::hours(24 * 365));
                    else if (o.k == O_TRY_FOR_FINITE) r = sem.try_acquire_for(std::chrono::milliseconds(50));
                    else r = sem.try_acquire_until(std::chrono::steady_clock::now() + std::chrono::milliseconds(50));
                    if (s.switches != sw) ++timed_slept;
                    (void) me;
                    if (r) on_success(op_names[o.k]);
                    else if (i != 0 && s.timeouts_fired == to0 && fail.empty())    // (thread 0's own later releases are not 'before the deadline' of its own call)
                    {
                        // no deadline passed during this call (the harness owns the clock) and, by construction
                        // of the case, enough permits are released: the timed acquire had to succeed
                        fail_oracle = "timed_acquire_false_without_timeout";
                        fail_slept = s.switches != sw;
                        fail = std::string(op_names[o.k]) + " returned false although its deadline did not pass (no timeout was fired by the scheduler); a permit was released while it waited: " +
                            (s.switches != sw ? "yes (it slept and was woken by a release)" : "n/a (did not sleep)");
                    }
                    break;
                }
                case O_STEP: vt::step(); break;
                }
            }
        });
    }
    s.diagnose = [&] {
        return "permits: initial=" + std::to_string(c.initial) + " released=" + std::to_string(release_done) + " acquired=" + std::to_string(acquired) +
            " (supply covers every acquisition attempt by construction)";
    };
    s.run(t);
    if (s.must_discard()) { Outcome dsc; dsc.kind = Outcome::DISCARD; dsc.counters["avoided"] = 1; return dsc; }
    Outcome out;
    if (!fail.empty())
    {
        out = Outcome::fail(fail_oracle, fail);
        if (fail_oracle == "timed_acquire_false_without_timeout") out.tags.push_back(fail_slept ? "sig:slept" : "sig:did_not_sleep");
    }
    else
    {
        // drain: available == initial + released - acquired
        long long avail = 0;
        while (sem.try_acquire()) ++avail;
        if (avail != c.initial + release_done - acquired)
            out = Outcome::fail("permit_conservation", "after all threads finished " + std::to_string(avail) + " permits are available, expected " +
                    std::to_string(c.initial) + "+" + std::to_string(release_done) + "-" + std::to_string(acquired));
    }
    out.counters["decisions"] = s.decisions;
    out.counters["switches"] = s.switches;
    out.counters["timeouts_fired"] = s.timeouts_fired;
    out.counters["blocked_then_released"] = blocked_then_released;
    out.counters["timed_waits_that_slept"] = timed_slept;
    out.counters["avoided"] = s.excluded_timeout_choices;
    out.nontrivial = blocked_then_released > 0 || timed_slept > 0;
    out.tags.push_back(c.mode == 1 ? "kind:binary" : "kind:counting");
    if (blocked_then_released) out.tags.push_back("saw:blocked_acquire_released");
    if (timed_slept) out.tags.push_back("saw:timed_acquire_slept");
    if (s.timeouts_fired) out.tags.push_back("saw:timeout_fired");
    return out;
}

static Outcome run_sliding(Case const& c, Tape& t)
{
    vt::Sched s;
    pika::sliding_semaphore sem(c.max_diff, c.lower0);
    long long max_signal_started = c.lower0, max_signal_done = c.lower0, blocked = 0, out_of_order = 0;
    long long widest = c.max_diff;    // largest max_difference whose setting has started
    bool widened = false;
    std::string fail;
    for (std::size_t i = 0; i < c.sl.size(); ++i)
    {
        s.add([&, i] {
            for (int v : c.sl[i])
            {
                if (v < 0)
                {
                    if (-v < max_signal_started) ++out_of_order;
                    max_signal_started = std::max<long long>(max_signal_started, -v);
                    sem.signal(-v);
                    max_signal_done = std::max<long long>(max_signal_done, -v);
                }
                else if (v >= 3000)
                {
                    widest = std::max<long long>(widest, v - 3000);
                    widened = true;
                    sem.set_max_difference(v - 3000, max_signal_done);
                }
                else if (v > 1000)
                {
                    int u = v - 1000;
                    long long done_before = max_signal_done;
                    bool r = sem.try_wait(u);
                    if (r && u - widest > max_signal_started && fail.empty())
                        fail = "try_wait(" + std::to_string(u) + ") succeeded although upper-max_difference exceeds the largest signalled lower limit " + std::to_string(max_signal_started);
                    if (!r && u - c.max_diff <= done_before && fail.empty())
                        fail = "try_wait(" + std::to_string(u) + ") failed although lower limit " + std::to_string(done_before) + " had been signalled before the call (max_difference " +
                            std::to_string(c.max_diff) + "): the window moved backwards";
                }
                else if (v > 0)
                {
                    long long sw = s.switches;
                    sem.wait(v);
                    if (s.switches != sw) ++blocked;
                    if (v - widest > max_signal_started && fail.empty())
                        fail = "wait(" + std::to_string(v) + ") returned although upper-max_difference=" + std::to_string(v - widest) +
                            " exceeds the largest signalled lower limit " + std::to_string(max_signal_started);
                }
                else
                {
                    bool r = sem.try_wait(1);
                    if (r && 1 - widest > max_signal_started && fail.empty()) fail = "try_wait(1) succeeded outside the window";
                }
            }
        });
    }
    s.diagnose = [&] { return "sliding: largest signalled lower limit " + std::to_string(max_signal_started) + ", every wait is satisfiable by construction"; };
    s.run(t);
    if (s.must_discard()) { Outcome dsc; dsc.kind = Outcome::DISCARD; dsc.counters["avoided"] = 1; return dsc; }
    Outcome out;
    if (!fail.empty()) out = Outcome::fail("sliding_window", fail);
    out.counters["decisions"] = s.decisions;
    out.counters["switches"] = s.switches;
    out.counters["blocked_then_released"] = blocked;
    out.nontrivial = blocked > 0;
    out.tags.push_back("kind:sliding");
    if (out_of_order) out.tags.push_back("saw:out_of_order_signal");
    if (widened) out.tags.push_back("has:set_max_difference_widening");
    if (blocked) out.tags.push_back("saw:blocked_wait_released");
    return out;
}

static Outcome run(tape_t const& tape)
{
    Tape t(tape);
    Case c = decode(t);
    vt::install_vt_hook();
    if (c.mode == 2) return run_sliding(c, t);
    if (c.mode == 1) return run_counting<pika::counting_semaphore<1>>(c, t);
    return run_counting<pika::counting_semaphore<>>(c, t);
}

int main(int argc, char** argv)
{
    Target T;
    T.property = "C08";
    T.engine = "E-vt";
    T.forked = true;
    T.tape_scale = 3;
    T.child_timeout_s = 30;
    T.describe = describe;
    T.run = run;
    T.signature = [](tape_t const& tape, Outcome const& o) {
        Tape t(tape);
        Case c = decode(t);
        std::string slept;
        for (auto const& tg : o.tags) if (tg.rfind("sig:", 0) == 0) slept = ", \"shape\": " + jstr(tg.substr(4));
        return std::string("{\"oracle\": ") + jstr(o.oracle) + ", \"kind\": " + (c.mode == 2 ? "\"sliding\"" : "\"counting\"") + slept + "}";
    };
    return target_main(argc, argv, T);
}
