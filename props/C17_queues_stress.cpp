// C17 (real-thread part) — the concurrent containers under plain std::threads (no pika runtime, no
// baton): reaches x86-TSO effects and instruction-level interleavings that the E-vt engine (sequentially
// consistent, hook granularity) cannot.  Each generated case = container x producer/consumer thread mix x
// operation counts; oracle = multiset ledger (nothing twice, nothing invented, everything out after a drain).
#include "core.hpp"
#include "sites.hpp"

#include <pika/concurrency/deque.hpp>
#include <pika/concurrency/detail/contiguous_index_queue.hpp>
#include <pika/schedulers/lockfree_queue_backends.hpp>

#include <atomic>
#include <memory>
#include <thread>

using namespace vf;

enum Kind { K_INDEX, K_DEQUE, K_FIFO, K_ABP_FIFO, K_ABP_LIFO, K_LIFO, K_COUNT };
static char const* const kind_names[] = {"contiguous_index_queue", "deque", "lockfree_fifo", "abp_fifo", "abp_lifo", "lockfree_lifo"};

struct Case
{
    int kind = 0;
    int producers = 1, consumers = 1;
    int per_producer = 1000;
    int rounds = 1;
    int perturb = 0;    // spin inserted at the hook sites of the containers (0 none)
    int burners = 0;    // additional busy threads: the container's threads get preempted in the middle of their operations (long stalls)
};

static long long g_avoided = 0;
[[maybe_unused]] static bool avoid_deque_stall()
{
    char const* e = std::getenv("VERIF_AVOID");
    return e && std::strstr(e, "deque_preempted_operation") != nullptr;
}
static Case decode(tape_t const& tape)
{
    Tape t(tape);
    Case c;
    c.kind = static_cast<int>(t.below(K_COUNT));
    c.producers = 1 + static_cast<int>(t.below(3));
    c.consumers = 1 + static_cast<int>(t.below(4));
    c.per_producer = t.pick({200, 2000, 20000});
    c.rounds = 1 + static_cast<int>(t.below(3));
    c.perturb = t.pick({0, 0, 1, 2});
    c.burners = t.pick({0, 0, 16, 40});
    // every perturbation is a sched_yield() in the middle of an operation; with 40 busy threads competing for the CPUs each of them costs
    // a scheduling quantum: 3 x 20000 elements took more than the 60 s watchdog (measured: 0.05 s without, 4 s with 16, > 60 s with 40 busy threads)
    if (c.burners >= 40 && c.perturb && c.per_producer > 2000) c.per_producer = 2000;
    return c;
}
static std::string describe(tape_t const& tape)
{
    Case c = decode(tape);
    std::ostringstream os;
    os << "{\"container\": \"" << kind_names[c.kind] << "\", \"producers\": " << c.producers << ", \"consumers\": " << c.consumers << ", \"per_producer\": " << c.per_producer
       << ", \"rounds\": " << c.rounds << ", \"perturb\": " << c.perturb << ", \"busy_threads_competing_for_cpus\": " << c.burners << "}";
    return os.str();
}

static int g_perturb = 0;
static void stress_hook(int site, void const*, std::uint64_t, std::uint64_t)
{
    if (g_perturb == 0) return;
    if (site >= 80 && site <= 94)
    {
        thread_local unsigned n = 0;
        if ((++n & (g_perturb == 1 ? 63u : 7u)) == 0) std::this_thread::yield();
    }
}

template <typename PushF, typename PopF>
static std::string run_generic(Case const& c, PushF push, PopF pop, long long& steals)
{
    std::size_t total = static_cast<std::size_t>(c.producers) * static_cast<std::size_t>(c.per_producer);
    for (int round = 0; round < c.rounds; ++round)
    {
        std::unique_ptr<std::atomic<unsigned char>[]> seen(new std::atomic<unsigned char>[total]());
        std::atomic<int> producers_done{0};
        std::atomic<long long> popped{0};
        std::atomic<int> dup{0}, invented{0};
        std::atomic<unsigned long long> bad{0};
        std::vector<std::thread> th;
        for (int p = 0; p < c.producers; ++p)
            th.emplace_back([&, p] {
                for (int i = 0; i < c.per_producer; ++i) push(static_cast<std::uint64_t>(p) * static_cast<std::uint64_t>(c.per_producer) + static_cast<std::uint64_t>(i) + 1, i & 1);
                producers_done.fetch_add(1);
            });
        for (int k = 0; k < c.consumers; ++k)
            th.emplace_back([&, k] {
                for (;;)
                {
                    std::uint64_t v = 0;
                    if (pop(v, k & 1))
                    {
                        if (v == 0 || v > total) { invented.store(1); bad.store(v); }
                        else if (seen[v - 1].exchange(1) != 0) { dup.store(1); bad.store(v); }
                        popped.fetch_add(1);
                    }
                    else if (producers_done.load() == c.producers)
                    {
                        // one more look after the producers are done, then leave the rest to the drain
                        if (!pop(v, k & 1)) break;
                        if (v == 0 || v > total) { invented.store(1); bad.store(v); }
                        else if (seen[v - 1].exchange(1) != 0) { dup.store(1); bad.store(v); }
                        popped.fetch_add(1);
                    }
                }
            });
        for (auto& t : th) t.join();
        // drain (quiescent)
        for (;;)
        {
            std::uint64_t v = 0;
            if (!pop(v, 0) && !pop(v, 1)) break;
            if (v == 0 || v > total) { invented.store(1); bad.store(v); }
            else if (seen[v - 1].exchange(1) != 0) { dup.store(1); bad.store(v); }
            popped.fetch_add(1);
        }
        steals += popped.load();
        if (invented.load()) return "value " + std::to_string(bad.load()) + " was never put in";
        if (dup.load()) return "value " + std::to_string(bad.load()) + " was returned twice";
        for (std::size_t i = 0; i < total; ++i)
            if (!seen[i].load()) return "value " + std::to_string(i + 1) + " was put in but never came out (" + std::to_string(popped.load()) + " of " + std::to_string(total) + " popped after the drain)";
    }
    return "";
}

static Outcome run(tape_t const& tape)
{
    g_avoided = 0;
    Case c = decode(tape);
    g_perturb = c.perturb;
    std::atomic<bool> burn_stop{false};
    std::vector<std::thread> burn;
    for (int i = 0; i < c.burners; ++i) burn.emplace_back([&] { while (!burn_stop.load(std::memory_order_relaxed)) {} });
    struct StopBurn { std::atomic<bool>& f; std::vector<std::thread>& t; ~StopBurn() { f = true; for (auto& x : t) x.join(); } } stop_burn{burn_stop, burn};
    pika::verif::hook.store(&stress_hook);
    using V = std::uint64_t;
    namespace td = pika::threads::detail;
    std::string err;
    long long ops = 0;
    switch (c.kind)
    {
    case K_INDEX:
    {
        // the range is pre-filled (reset), consumers pop from both ends
        std::size_t total = static_cast<std::size_t>(c.producers) * static_cast<std::size_t>(c.per_producer);
        for (int round = 0; round < c.rounds && err.empty(); ++round)
        {
            pika::concurrency::detail::contiguous_index_queue<std::uint32_t> q(7, static_cast<std::uint32_t>(7 + total));
            std::unique_ptr<std::atomic<unsigned char>[]> seen(new std::atomic<unsigned char>[total]());
            std::atomic<int> dup{0}, oor{0};
            std::vector<std::thread> th;
            for (int k = 0; k < c.consumers + c.producers; ++k)
                th.emplace_back([&, k] {
                    for (;;)
                    {
                        auto r = (k & 1) ? q.pop_right() : q.pop_left();
                        if (!r) break;
                        if (*r < 7 || *r >= 7 + total) oor.store(1);
                        else if (seen[*r - 7].exchange(1) != 0) dup.store(1);
                    }
                });
            for (auto& t : th) t.join();
            ops += static_cast<long long>(total);
            if (oor.load()) err = "index outside the range was returned";
            else if (dup.load()) err = "an index was returned twice";
            else
                for (std::size_t i = 0; i < total; ++i)
                    if (!seen[i].load()) { err = "index " + std::to_string(i + 7) + " was never returned although the queue is empty"; break; }
        }
        break;
    }
    case K_DEQUE:
    {
        pika::concurrency::detail::deque<V> q(8);
        err = run_generic(c, [&](V v, int e) { if (e) q.push_right(v); else q.push_left(v); }, [&](V& v, int e) { return e ? q.pop_right(v) : q.pop_left(v); }, ops);
        break;
    }
    case K_FIFO:
    {
        td::lockfree_fifo_backend<V> q(64);
        err = run_generic(c, [&](V v, int e) { q.push(v, e != 0); }, [&](V& v, int e) { return q.pop(v, e != 0); }, ops);
        break;
    }
    case K_ABP_FIFO:
    {
        td::lockfree_abp_fifo_backend<V> q(8);
        err = run_generic(c, [&](V v, int e) { q.push(v, e != 0); }, [&](V& v, int e) { return q.pop(v, e != 0); }, ops);
        break;
    }
    case K_ABP_LIFO:
    {
        td::lockfree_abp_lifo_backend<V> q(8);
        err = run_generic(c, [&](V v, int e) { q.push(v, e != 0); }, [&](V& v, int e) { return q.pop(v, e != 0); }, ops);
        break;
    }
    default:
    {
        td::lockfree_lifo_backend<V> q(8);
        err = run_generic(c, [&](V v, int e) { q.push(v, e != 0); }, [&](V& v, int e) { return q.pop(v, e != 0); }, ops);
        break;
    }
    }
    Outcome out;
    if (!err.empty()) out = Outcome::fail(err.find("twice") != std::string::npos ? "element_twice" : err.find("never put") != std::string::npos ? "element_invented" : "element_lost", std::string(kind_names[c.kind]) + ": " + err);
    out.counters["elements_moved"] = ops;
    out.counters["avoided"] = g_avoided;
    if (c.burners) out.tags.push_back("has:oversubscribed_cpus");
    out.nontrivial = c.producers + c.consumers >= 3 && c.per_producer >= 2000;
    out.tags.push_back(std::string("container:") + kind_names[c.kind]);
    return out;
}

int main(int argc, char** argv)
{
    Target T;
    T.property = "C17";
    T.engine = "E-stress";
    T.forked = true;
    T.tape_scale = 1;
    T.child_timeout_s = 60;
    T.describe = describe;
    T.run = run;
    T.signature = [](tape_t const& tape, Outcome const& o) {
        Case c = decode(tape);
        bool deque_backed = c.kind == K_DEQUE || c.kind == K_ABP_FIFO || c.kind == K_ABP_LIFO || c.kind == K_LIFO;
        return std::string("{\"oracle\": ") + jstr(o.oracle) + ", \"container\": " + jstr(kind_names[c.kind]) + ", \"backend\": " + (deque_backed ? "\"lock-free deque\"" : "\"other\"") + ", \"threads\": \"real\"}";
    };
    return target_main(argc, argv, T);
}
