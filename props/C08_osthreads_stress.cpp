// C08 (plain OS threads) — counting_semaphore / binary semaphore / sliding_semaphore used from std::threads without a pika
// runtime: blocked acquirers suspend through execution_base's default agent (the E-vt target replaces the agent by the
// harness's own to own the schedule).   Engine: E-stress (real threads; the schedule is not owned by the harness).
// Each generated case = semaphore kind x releaser threads x acquirer threads (form of acquire each) x permits per round x
// rounds.  Counting/binary: in every round the releasers publish exactly as many permits as the acquirers will take in
// that round; acquirers block, poll (try_acquire) or use year-long timed acquires.  Sliding: one signaller moves the lower
// limit forward, waiters wait for upper limits inside the final window.
// Oracles: conservation with a shadow counter (incremented BEFORE release, decremented AFTER a successful acquire: it may
// never go negative = a permit was granted that nobody released); every acquirer gets its quota: an acquirer blocked
// inside acquire although the shadow counter says permits are available, with no progress anywhere for 10 s, is a lost
// wake-up; a year-long timed acquire never reports failure; release never hangs.
#include "core.hpp"

#include <pika/semaphore.hpp>
#include <pika/synchronization/sliding_semaphore.hpp>

#include <atomic>
#include <chrono>
#include <mutex>
#include <thread>
#include <vector>

using namespace vf;

enum Kind { K_COUNTING, K_BINARY, K_SLIDING, K_COUNT };
static char const* const kind_names[] = {"counting_semaphore<>", "counting_semaphore<1> (binary)", "sliding_semaphore"};
enum Form { F_ACQUIRE, F_TRY_POLL, F_TRY_FOR_YEAR, F_TRY_UNTIL_YEAR, F_COUNT };
static char const* const form_names[] = {"acquire()", "try_acquire() polling", "try_acquire_for(1 year)", "try_acquire_until(now + 1 year)"};

struct Case
{
    int kind = 0;
    int releasers = 1;
    std::vector<int> forms;       // one per acquirer thread
    int per_round = 1;            // permits each acquirer takes per round
    int batch = 1;                // release(n) batch size (counting only)
    int rounds = 1000;
    int skew = 0;
    int initial = 0;
    // sliding
    int max_diff = 2;
    int avoided = 0;
    bool has_timed() const { for (int f : forms) if (f == F_TRY_FOR_YEAR || f == F_TRY_UNTIL_YEAR) return true; return false; }
};

static Case decode(tape_t const& tape)
{
    Tape t(tape);
    Case c;
    c.kind = t.weighted({5, 2, 3});
    c.releasers = 1 + static_cast<int>(t.below(2));
    int na = 1 + t.weighted({3, 3, 2});
    for (int i = 0; i < na; ++i) c.forms.push_back(t.weighted({5, 2, 2, 1}));
    c.per_round = 1 + static_cast<int>(t.below(3));
    c.batch = 1 + static_cast<int>(t.below(3));
    c.rounds = t.pick({1000, 300, 5000, 20000});
    c.skew = t.pick({0, 0, 20, 200, 2000});
    c.initial = static_cast<int>(t.below(3));
    c.max_diff = 1 + static_cast<int>(t.below(4));
    if (c.kind == K_BINARY) { c.releasers = 1; c.batch = 1; c.initial = std::min(c.initial, 1); }
    if (c.kind == K_SLIDING) { c.releasers = 1; for (int& f : c.forms) f = f == F_TRY_POLL ? F_TRY_POLL : F_ACQUIRE; }
    {
        // known finding F22 excluded by construction (counted): timed waits from plain OS threads can never be woken
        char const* e = std::getenv("VERIF_AVOID");
        if (e && std::strstr(e, "os_thread_timed_wait"))
            for (int& f : c.forms)
                if (f == F_TRY_FOR_YEAR || f == F_TRY_UNTIL_YEAR) { f = F_ACQUIRE; c.avoided = 1; }
    }
    return c;
}

static std::string describe(tape_t const& tape)
{
    Case c = decode(tape);
    std::ostringstream os;
    os << "{\"semaphore\": \"" << kind_names[c.kind] << "\", \"releaser_os_threads\": " << c.releasers << ", \"acquirer_os_threads\": [";
    for (std::size_t i = 0; i < c.forms.size(); ++i) os << (i ? ", " : "") << "\"" << (c.kind == K_SLIDING ? (c.forms[i] == F_TRY_POLL ? "try_wait(u) polling" : "wait(u)") : form_names[c.forms[i]]) << "\"";
    os << "], \"rounds\": " << c.rounds << ", \"skew\": " << c.skew;
    if (c.kind == K_SLIDING) os << ", \"max_difference\": " << c.max_diff;
    else os << ", \"permits_per_acquirer_and_round\": " << c.per_round << ", \"release_batch\": " << c.batch << ", \"initial\": " << c.initial;
    os << "}";
    return os.str();
}

struct Shared
{
    std::atomic<long> shadow{0};
    std::atomic<long> progress{0};
    std::atomic<long> round_done{0};          // rounds completed by all acquirers (sum of acks)
    std::vector<std::atomic<long>> acked;     // per acquirer: rounds completed
    std::vector<std::atomic<int>> in_acquire;
    std::vector<std::atomic<int>> finished;
    std::atomic<int> in_release{0};
    std::atomic<int> releasers_finished{0};
    std::atomic<int> fail_set{0};
    std::string oracle, msg;
    std::mutex fm;
    explicit Shared(std::size_t n) : acked(n), in_acquire(n), finished(n) {}
    void fail(char const* o, std::string m)
    {
        std::lock_guard<std::mutex> l(fm);
        if (fail_set.load()) return;
        oracle = o;
        msg = std::move(m);
        fail_set.store(1);
    }
};

static inline void spin(int n)
{
    for (volatile int k = 0; k < n; k = k + 1) {}
}

template <typename Sem>
static void run_counting(Case const& c, Shared& s, Sem& sem, std::vector<std::thread>& th)
{
    std::size_t na = c.forms.size();
    long const R = c.rounds;
    auto const year = std::chrono::hours(24 * 365);
    s.shadow.store(c.initial);
    static std::atomic<int> initial_taken;
    initial_taken.store(0);
    // the initial permits are taken by acquirer 0 before the rounds start (so that the per-round balance is exact)
    for (std::size_t a = 0; a < na; ++a)
        th.emplace_back([&, a] {
            int form = c.forms[a];
            auto take_one = [&]() -> bool {
                s.in_acquire[a].store(1);
                bool ok = true;
                switch (form)
                {
                case F_ACQUIRE: sem.acquire(); break;
                case F_TRY_POLL: while (!sem.try_acquire()) { if (s.fail_set.load()) { ok = false; break; } std::this_thread::yield(); } break;
                case F_TRY_FOR_YEAR: ok = sem.try_acquire_for(year); if (!ok) s.fail("timed_acquire_false_without_timeout", "try_acquire_for(1 year) returned false"); break;
                default: ok = sem.try_acquire_until(std::chrono::steady_clock::now() + year); if (!ok) s.fail("timed_acquire_false_without_timeout", "try_acquire_until(now + 1 year) returned false"); break;
                }
                s.in_acquire[a].store(0);
                if (!ok) return false;
                if (s.shadow.fetch_sub(1) - 1 < 0) { s.fail("permit_granted_that_nobody_released", std::string(form_names[form]) + " succeeded although every released permit had already been taken"); return false; }
                s.progress.fetch_add(1);
                return true;
            };
            if (a == 0)
            {
                for (int k = 0; k < c.initial; ++k) if (!take_one()) { s.finished[a].store(1); return; }
                initial_taken.store(1);
            }
            else while (!initial_taken.load() && !s.fail_set.load()) {}
            for (long r = 0; r < R && !s.fail_set.load(); ++r)
            {
                // permits are not addressed to anybody: nobody starts on round r before everybody has taken its share of round r-1
                for (std::size_t a2 = 0; a2 < na; ++a2)
                    while (s.acked[a2].load() < r && !s.fail_set.load()) {}
                bool ok = true;
                for (int k = 0; k < c.per_round && ok; ++k) ok = take_one();
                if (!ok) break;
                s.acked[a].store(r + 1);
            }
            s.finished[a].store(1);
        });
    // releasers: round r is published as soon as every acquirer acknowledged round r-1 (they are on their way back into acquire)
    long per_round_total = static_cast<long>(c.per_round) * static_cast<long>(na);
    for (int q = 0; q < c.releasers; ++q)
        th.emplace_back([&, q] {
            for (long r = 0; r < R && !s.fail_set.load(); ++r)
            {
                for (std::size_t a = 0; a < na; ++a)
                    while (s.acked[a].load() < r && !s.fail_set.load()) {}
                while (!initial_taken.load() && !s.fail_set.load()) {}
                spin(c.skew);
                // this releaser's share of the round
                long share = per_round_total / c.releasers + (q < per_round_total % c.releasers ? 1 : 0);
                while (share > 0)
                {
                    long n = std::min<long>(share, c.batch);
                    // binary semaphore: release() requires that the permit is not there already (precondition of counting_semaphore<1>)
                    if (c.kind == K_BINARY) while (s.shadow.load() > 0 && !s.fail_set.load()) std::this_thread::yield();
                    if (s.fail_set.load()) break;
                    s.shadow.fetch_add(n);
                    s.in_release.fetch_add(1);
                    sem.release(static_cast<std::ptrdiff_t>(n));
                    s.in_release.fetch_sub(1);
                    s.progress.fetch_add(1);
                    share -= n;
                }
            }
            s.releasers_finished.fetch_add(1);
        });
}

static void run_sliding(Case const& c, Shared& s, pika::sliding_semaphore& sem, std::vector<std::thread>& th, std::atomic<long>& lower)
{
    std::size_t na = c.forms.size();
    long const R = c.rounds;
    // round r: the signaller signals lower limit r+1; the waiters wait for upper limit r+1+max_diff, which is admissible exactly from then on
    for (std::size_t a = 0; a < na; ++a)
        th.emplace_back([&, a] {
            int form = c.forms[a];
            for (long r = 0; r < R && !s.fail_set.load(); ++r)
            {
                std::int64_t u = r + 1 + c.max_diff;
                s.in_acquire[a].store(1);
                if (form == F_TRY_POLL) { while (!sem.try_wait(u)) { if (s.fail_set.load()) break; std::this_thread::yield(); } }
                else sem.wait(u);
                s.in_acquire[a].store(0);
                if (s.fail_set.load()) break;
                // admitted: the lower limit must have reached u - max_diff (published BEFORE the signal call)
                if (lower.load() < u - c.max_diff) { s.fail("window_passed_too_early", "wait(" + std::to_string(u) + ") returned with max_difference " + std::to_string(c.max_diff) + " although the highest lower limit signalled so far is " + std::to_string(lower.load())); break; }
                s.progress.fetch_add(1);
                s.acked[a].store(r + 1);
            }
            s.finished[a].store(1);
        });
    th.emplace_back([&] {
        for (long r = 0; r < R && !s.fail_set.load(); ++r)
        {
            for (std::size_t a = 0; a < na; ++a)
                while (s.acked[a].load() < r && !s.fail_set.load()) {}
            spin(c.skew);
            lower.store(r + 1);
            s.shadow.store(r + 1);
            s.in_release.fetch_add(1);
            sem.signal(r + 1);
            s.in_release.fetch_sub(1);
            s.progress.fetch_add(1);
        }
        s.releasers_finished.fetch_add(1);
    });
}

static Outcome run(tape_t const& tape)
{
    Case c = decode(tape);
    std::size_t na = c.forms.size();
    // (leaked on purpose when a thread is stuck: it still references them)
    auto* sp = new Shared(na);
    Shared& s = *sp;
    auto* th = new std::vector<std::thread>();
    auto* cs = new pika::counting_semaphore<>(c.initial);
    auto* bs = new pika::counting_semaphore<1>(c.initial);
    auto* ss = new pika::sliding_semaphore(c.max_diff, 0);
    auto* lower = new std::atomic<long>(0);
    Case* cc = new Case(c);
    if (c.kind == K_COUNTING) run_counting(*cc, s, *cs, *th);
    else if (c.kind == K_BINARY) run_counting(*cc, s, *bs, *th);
    else run_sliding(*cc, s, *ss, *th, *lower);

    long last = -1;
    auto since = std::chrono::steady_clock::now();
    bool stuck = false;
    int nrel = c.kind == K_SLIDING ? 1 : c.releasers;
    auto all_finished = [&] {
        bool all = s.releasers_finished.load() == nrel;
        for (std::size_t a = 0; a < na; ++a) all &= s.finished[a].load() == 1;
        return all;
    };
    for (;;)
    {
        if (all_finished()) break;
        if (s.fail_set.load())
        {
            auto t1 = std::chrono::steady_clock::now();
            while (!all_finished() && std::chrono::steady_clock::now() - t1 < std::chrono::seconds(2)) std::this_thread::sleep_for(std::chrono::milliseconds(20));
            stuck = !all_finished();
            break;
        }
        long p = s.progress.load();
        auto now = std::chrono::steady_clock::now();
        if (p != last) { last = p; since = now; }
        else if (now - since > std::chrono::seconds(10))
        {
            std::string d = std::string(kind_names[c.kind]) + ": ";
            bool blocked_with_permits = false;
            for (std::size_t a = 0; a < na; ++a)
            {
                d += "acquirer" + std::to_string(a) + " [" + (c.kind == K_SLIDING ? "wait" : form_names[c.forms[a]]) + "] rounds=" + std::to_string(s.acked[a].load()) + (s.in_acquire[a].load() ? " inside acquire" : "") + (s.finished[a].load() ? " finished" : "") + "; ";
                if (!s.finished[a].load() && s.in_acquire[a].load()) blocked_with_permits = true;
            }
            d += (c.kind == K_SLIDING ? "lower limit signalled " : "permits released and not yet taken (shadow counter) ") + std::to_string(s.shadow.load()) + "; ";
            if (s.in_release.load())
                s.fail("release_never_returns", "a release()/signal() call has not returned for 10 s and nothing else moves: " + d + "(plain OS threads)");
            else if (blocked_with_permits && (c.kind == K_SLIDING || s.shadow.load() > 0))
                s.fail("lost_wakeup", "no thread made progress for 10 s although " + (c.kind == K_SLIDING ? std::string("the window admits the waiters") : std::string("permits are available")) + ": " + d + "(plain OS threads)");
            else s.fail("no_progress", "no thread made progress for 10 s: " + d);
            stuck = true;
            break;
        }
        std::this_thread::sleep_for(std::chrono::milliseconds(5));
    }
    Outcome out;
    if (stuck) for (auto& x : *th) x.detach();
    else for (auto& x : *th) x.join();
    if (s.fail_set.load())
    {
        std::lock_guard<std::mutex> l(s.fm);
        if (s.oracle == "no_progress") { out.kind = Outcome::INCONCLUSIVE; out.msg = s.msg; }
        else out = Outcome::fail(s.oracle, s.msg);
    }
    else if (c.kind != K_SLIDING && s.shadow.load() != 0)
        out = Outcome::fail("permit_accounting", "after all threads finished " + std::to_string(s.shadow.load()) + " released permits were neither taken nor expected to remain");
    long rounds = 0;
    for (std::size_t a = 0; a < na; ++a) rounds += s.acked[a].load();
    out.counters["acquirer_rounds"] = rounds;
    out.counters["avoided"] = c.avoided;
    out.nontrivial = na >= 2 || c.rounds >= 1000;
    out.tags.push_back(std::string("kind:") + kind_names[c.kind]);
    for (int f : c.forms) out.tags.push_back(std::string("form:") + (c.kind == K_SLIDING ? (f == F_TRY_POLL ? "try_wait(u) polling" : "wait(u)") : form_names[f]));
    std::sort(out.tags.begin(), out.tags.end());
    out.tags.erase(std::unique(out.tags.begin(), out.tags.end()), out.tags.end());
    if (!stuck) { delete th; delete cs; delete bs; delete ss; delete lower; delete cc; delete sp; }
    return out;
}

int main(int argc, char** argv)
{
    Target T;
    T.property = "C08";
    T.engine = "E-stress";
    T.forked = true;
    T.tape_scale = 1;
    T.child_timeout_s = 120;
    T.describe = describe;
    T.run = run;
    T.signature = [](tape_t const& tape, Outcome const& o) {
        Case c = decode(tape);
        return std::string("{\"oracle\": ") + jstr(o.oracle) + ", \"threads\": \"real\", \"kind\": " + jstr(c.kind == K_SLIDING ? "sliding" : c.kind == K_BINARY ? "binary" : "counting") + ", \"timed_waiter_on_os_thread\": " + (c.has_timed() ? "true" : "false") + "}";
    };
    return target_main(argc, argv, T);
}
