// C15 — workers are pinned to distinct PUs inside the process mask.   Engine: E-proc.
// Each case = synthetic hwloc topology x process mask x thread count x binding mode (x optional pool
// partition); a grandchild starts the runtime and dumps what the live runtime uses.
#include "proc.hpp"

#include <pika/init.hpp>
#include <pika/runtime.hpp>
#include <pika/execution.hpp>
#include <pika/topology/cpu_mask.hpp>

#include <sched.h>

using namespace vf;

static char const* const bind_names[] = {"compact", "scatter", "balanced", "numa-balanced", "none", "default"};

struct Case
{
    bool synthetic = true;
    int packs = 1, cores = 1, pus = 1;
    std::vector<int> mask;        // PU indices in the process mask (sorted); empty => ignore-process-mask
    bool ignore_mask = false;
    int mask_via = 0;             // 0 --pika:process-mask, 1 PIKA_PROCESS_MASK env
    // the OS numbers the PUs like a hyper-threaded x86 machine (all first hardware threads, then all second ones ...): hwloc's
    // logical index l = core * pus + thread has the OS index thread * cores + core.  The process mask is given in OS indices.
    bool os_numbering_interleaved = false;
    int threads_kind = 0;         // 0 numeric, 1 cores, 2 all
    int threads = 1;
    int bind = 0;
    int extra_pool = 0;           // >0: a second pool with this many PUs taken through the resource partitioner
    int total_pus() const { return packs * cores * pus; }
};

static Case decode(tape_t const& tape)
{
    Tape t(tape);
    Case c;
    c.synthetic = !t.chance(1, 6);
    if (c.synthetic)
    {
        c.packs = 1 + t.weighted({3, 3, 1, 1});
        c.cores = 1 + static_cast<int>(t.below(8));
        c.pus = 1 + t.weighted({3, 3, 0, 1});
        // pika sizes its masks with std::thread::hardware_concurrency() (16 on this machine), so a synthetic
        // topology cannot have more PUs than the real machine
        while (c.total_pus() > 16)
        {
            if (c.cores > 1) --c.cores;
            else if (c.pus > 1) c.pus /= 2;
            else --c.packs;
        }
    }
    else { c.packs = 1; c.cores = 16; c.pus = 1; }
    int n = c.total_pus();
    c.ignore_mask = t.chance(1, 5);
    // without the process mask pika sizes 'all' by std::thread::hardware_concurrency(): only meaningful when the (synthetic) topology has the real PU count
    if (c.ignore_mask && n != 16) c.ignore_mask = false;
    int style = t.weighted({2, 3, 2, 2});    // full, random subset, contiguous window, one hardware thread per core
    for (int i = 0; i < n; ++i)
    {
        bool in = true;
        if (style == 1) in = t.chance(1, 2);
        c.mask.push_back(in ? 1 : 0);
    }
    if (style == 2)
    {
        int lo = static_cast<int>(t.below(static_cast<std::uint32_t>(n))), len = 1 + static_cast<int>(t.below(static_cast<std::uint32_t>(n - lo)));
        for (int i = 0; i < n; ++i) c.mask[static_cast<std::size_t>(i)] = (i >= lo && i < lo + len) ? 1 : 0;
    }
    if (style == 3)
    {
        int which = static_cast<int>(t.below(static_cast<std::uint32_t>(c.pus)));
        for (int i = 0; i < n; ++i) c.mask[static_cast<std::size_t>(i)] = (i % c.pus == which || (i / (c.cores * c.pus)) == 0) ? 1 : 0;
    }
    bool any = false;
    for (int b : c.mask) any |= b != 0;
    if (!any) c.mask[static_cast<std::size_t>(t.below(static_cast<std::uint32_t>(n)))] = 1;
    c.mask_via = t.weighted({3, 1});
    int m = 0;
    for (int b : c.mask) m += b;
    if (c.ignore_mask) m = n;
    c.threads_kind = t.weighted({5, 1, 1});
    c.threads = 1 + static_cast<int>(t.below(static_cast<std::uint32_t>(m + 1)));    // 1 .. m+1 (m+1 must be rejected)
    c.bind = t.weighted({2, 2, 3, 2, 1, 1});
    c.extra_pool = t.chance(1, 5) ? 1 + static_cast<int>(t.below(2)) : 0;
    // the default pool must keep at least one worker
    if (c.threads_kind == 0 && c.extra_pool >= std::min(c.threads, m)) c.extra_pool = 0;
    if (c.threads_kind != 0 && c.extra_pool >= 1 && m <= c.extra_pool * c.pus) c.extra_pool = 0;
    c.os_numbering_interleaved = c.synthetic && c.packs == 1 && c.pus >= 2 && c.cores >= 2 && !c.ignore_mask && t.chance(1, 3);
    return c;
}

static std::string mask_hex(Case const& c)
{
    // little-endian bit string -> hex
    std::string hex;
    int n = c.total_pus();
    for (int nib = (n + 3) / 4 - 1; nib >= 0; --nib)
    {
        int v = 0;
        for (int b = 0; b < 4; ++b)
        {
            int i = nib * 4 + b;
            if (i < n && c.mask[static_cast<std::size_t>(i)]) v |= 1 << b;
        }
        hex += "0123456789abcdef"[v];
    }
    auto p = hex.find_first_not_of('0');
    return "0x" + (p == std::string::npos ? std::string("0") : hex.substr(p));
}

static std::string describe(tape_t const& tape)
{
    Case c = decode(tape);
    std::ostringstream os;
    os << "{\"topology\": \"" << (c.synthetic ? "pack:" + std::to_string(c.packs) + " core:" + std::to_string(c.cores) + " pu:" + std::to_string(c.pus) + (c.os_numbering_interleaved ? " (OS indexes interleaved)" : "") : std::string("real machine (1x16x1)"))
       << "\", \"process_mask\": \"" << (c.ignore_mask ? std::string("ignored") : mask_hex(c)) << (c.mask_via ? " (env)" : "") << "\", \"threads\": \""
       << (c.threads_kind == 0 ? std::to_string(c.threads) : c.threads_kind == 1 ? std::string("cores") : std::string("all")) << "\", \"bind\": \"" << bind_names[c.bind]
       << "\", \"extra_pool_pus\": " << c.extra_pool << "}";
    return os.str();
}

static Outcome run(tape_t const& tape)
{
    Case c = decode(tape);
    int n = c.total_pus();
    std::vector<int> eff(c.mask);
    if (c.os_numbering_interleaved)
    {
        // c.mask (and the hex value pika is given) is indexed by OS index; pika's masks and PU numbers are logical indices
        for (int l = 0; l < n; ++l) eff[static_cast<std::size_t>(l)] = c.mask[static_cast<std::size_t>((l % c.pus) * c.cores + l / c.pus)];
    }
    if (c.ignore_mask) for (auto& b : eff) b = 1;
    int m = 0;
    for (int b : eff) m += b;
    int cores_in_mask = 0;
    for (int co = 0; co < c.packs * c.cores; ++co)
    {
        bool any = false;
        for (int k = 0; k < c.pus; ++k) any |= eff[static_cast<std::size_t>(co * c.pus + k)] != 0;
        cores_in_mask += any;
    }
    int expect_threads = c.threads_kind == 0 ? c.threads : c.threads_kind == 1 ? cores_in_mask : m;
    // bind=none: the thread-count check lives in the binding decoders and is skipped; the documentation names
    // oversubscribed systems as the use case of 'none', so no rejection is demanded there (non-claim)
    bool expect_error = c.threads_kind == 0 && c.threads > m && c.bind != 4;
    bool oversub_none = c.threads_kind == 0 && c.threads > m && c.bind == 4;

    std::vector<std::pair<std::string, std::string>> env;
    std::vector<std::string> unset{"PIKA_PROCESS_MASK", "PIKA_THREADS", "PIKA_BIND", "PIKA_COMMANDLINE_OPTIONS", "HWLOC_SYNTHETIC", "PIKA_IGNORE_PROCESS_MASK"};
    if (c.synthetic)
        env.push_back({"HWLOC_SYNTHETIC", "pack:" + std::to_string(c.packs) + " core:" + std::to_string(c.cores) + " pu:" + std::to_string(c.pus) +
                (c.os_numbering_interleaved ? "(indexes=" + std::to_string(c.pus) + "*" + std::to_string(c.cores) + ")" : std::string())});
    std::vector<std::string> args{"verif"};
    args.push_back("--pika:threads=" + (c.threads_kind == 0 ? std::to_string(c.threads) : c.threads_kind == 1 ? std::string("cores") : std::string("all")));
    if (c.bind != 5) args.push_back(std::string("--pika:bind=") + bind_names[c.bind]);
    if (c.ignore_mask) args.push_back("--pika:ignore-process-mask");
    else if (c.mask_via == 0) args.push_back("--pika:process-mask=" + mask_hex(c));
    else env.push_back({"PIKA_PROCESS_MASK", mask_hex(c)});
    int extra = c.extra_pool;

    env.push_back({"VERIF_EXTRA_POOL", std::to_string(extra)});
    std::vector<std::string> pargs(args.begin() + 1, args.end());
    proc::Result r = proc::run_exec(env, unset, pargs);

    Outcome out;
    auto fail = [&](char const* o, std::string msg) { if (out.kind == Outcome::PASS) out = Outcome::fail(o, std::move(msg)); };
    bool started = r.has("workers");
    if (r.timed_out) { out.kind = Outcome::INCONCLUSIVE; out.msg = "start-up did not finish in time"; return out; }
    if (expect_error)
    {
        if (started)
            fail("oversubscription_accepted", "requested " + std::to_string(c.threads) + " threads with only " + std::to_string(m) + " processing units in the effective mask: the runtime started with " + r.get("workers") + " workers instead of rejecting the request");
    }
    else if (!started)
    {
        // the statement quantifies over configurations pika accepts: a rejected satisfiable request is recorded, not judged
        out.tags.push_back("observed:satisfiable_request_rejected");
        out.tags.push_back(std::string("rejected:") + bind_names[c.bind] + "/packs" + std::to_string(c.packs));
    }
    else if (oversub_none) { out.tags.push_back("observed:none_accepts_more_threads_than_pus"); }
    else
    {
        long long nw = r.num("workers");
        if (nw != expect_threads)
            fail("worker_count", "runtime uses " + std::to_string(nw) + " workers, expected " + std::to_string(expect_threads) + " (" + (c.threads_kind == 1 ? "cores" : c.threads_kind == 2 ? "all" : "numeric") + ", " + std::to_string(m) + " PUs / " + std::to_string(cores_in_mask) + " cores in the mask)");
        if (r.num("pool_sum") != nw) fail("pool_membership", "pool sizes sum to " + r.get("pool_sum") + " but there are " + std::to_string(nw) + " workers");
        std::set<int> used;
        for (long long i = 0; i < nw && out.kind == Outcome::PASS; ++i)
        {
            std::vector<int> bits;
            {
                std::istringstream is(r.get("mask" + std::to_string(i)));
                std::string tok;
                while (std::getline(is, tok, ',')) if (!tok.empty()) bits.push_back(std::atoi(tok.c_str()));
            }
            long long pu = r.num("pu" + std::to_string(i));
            if (c.bind == 4)
            {
                // 'none' leaves workers unbound: no single-PU pinning
                if (bits.size() == 1 && n > 1 && m > 1) fail("none_is_bound", "bind=none but worker " + std::to_string(i) + " is pinned to a single PU");
                continue;
            }
            if (bits.size() != 1) { fail("not_single_pu", "worker " + std::to_string(i) + " is bound to " + std::to_string(bits.size()) + " processing units"); break; }
            int b = bits[0];
            if (b < 0 || b >= n || !eff[static_cast<std::size_t>(b)]) { fail("outside_process_mask", "worker " + std::to_string(i) + " is bound to PU " + std::to_string(b) + " which is not in the effective process mask"); break; }
            if (!used.insert(b).second) { fail("pu_shared", "two workers share PU " + std::to_string(b)); break; }
            if (pu != b) { fail("reported_pu_differs", "worker " + std::to_string(i) + " reports PU number " + std::to_string(pu) + " but its affinity mask is PU " + std::to_string(b)); break; }
            if (!c.synthetic && r.has("os" + std::to_string(i)))
            {
                std::string os = r.get("os" + std::to_string(i));
                if (os != std::to_string(b) + ",") fail("os_affinity_differs", "worker " + std::to_string(i) + " should be bound to PU " + std::to_string(b) + " but sched_getaffinity says {" + os + "}");
            }
        }
    }
    bool strict_subset = m < n;
    out.nontrivial = (c.pus >= 2 || c.packs >= 2) && strict_subset && expect_threads >= 2;
    out.tags.push_back(std::string("bind:") + bind_names[c.bind]);
    out.tags.push_back(c.synthetic ? "topology:synthetic" : "topology:real");
    if (c.os_numbering_interleaved) out.tags.push_back("topology:os_indexes_differ_from_logical");
    if (expect_error) out.tags.push_back("class:oversubscription_request");
    if (c.threads_kind) out.tags.push_back(c.threads_kind == 1 ? "threads:cores" : "threads:all");
    if (c.extra_pool) out.tags.push_back("has:extra_pool");
    if (c.pus >= 2) out.tags.push_back("smt");
    if (c.packs >= 2) out.tags.push_back("multi_socket");
    return out;
}

// the probe: runs in a freshly exec'ed process (the hwloc topology is read during static initialisation)
static int probe_main(int argc, char** argv)
{
    int extra = std::getenv("VERIF_EXTRA_POOL") ? std::atoi(std::getenv("VERIF_EXTRA_POOL")) : 0;
    pika::init_params ip;
    if (extra > 0)
    {
        ip.rp_callback = [extra](pika::resource::partitioner& rp, pika::program_options::variables_map const&) {
            rp.create_thread_pool("extra", pika::resource::scheduling_policy::local_priority_fifo);
            int taken = 0;
            for (auto const& d : rp.sockets())
                for (auto const& co : d.cores())
                    for (auto const& p : co.pus())
                        if (taken < extra) { rp.add_resource(p, "extra"); ++taken; }
        };
    }
    pika::start(nullptr, argc, argv, ip);
    namespace td = pika::threads::detail;
    auto& rp = pika::resource::get_partitioner();
    std::size_t nw = pika::get_num_worker_threads();
    proc::emit_probe("workers", std::to_string(nw));
    proc::emit_probe("pools", std::to_string(rp.get_num_pools()));
    std::size_t sum = 0;
    for (std::size_t p = 0; p < rp.get_num_pools(); ++p) sum += rp.get_num_threads(p);
    proc::emit_probe("pool_sum", std::to_string(sum));
    for (std::size_t i = 0; i < nw; ++i)
    {
        auto mask = rp.get_pu_mask(i);
        std::string bits;
        for (std::size_t b = 0; b < td::mask_size(mask); ++b) if (td::test(mask, b)) bits += std::to_string(b) + ",";
        proc::emit_probe("mask" + std::to_string(i), bits);
        proc::emit_probe("pu" + std::to_string(i), std::to_string(rp.get_pu_num(i)));
    }
    if (!std::getenv("HWLOC_SYNTHETIC"))
    {
        namespace ex = pika::execution::experimental;
        for (std::size_t p = 0; p < rp.get_num_pools(); ++p)
        {
            auto& pool = pika::resource::get_thread_pool(p);
            for (std::size_t w = 0; w < pool.get_os_thread_count(); ++w)
            {
                std::string got;
                std::size_t gw = 0;
                pika::this_thread::experimental::sync_wait(ex::then(
                    ex::schedule(ex::with_hint(ex::thread_pool_scheduler{&pool}, pika::execution::thread_schedule_hint(static_cast<std::int16_t>(w)))), [&] {
                        cpu_set_t cs;
                        CPU_ZERO(&cs);
                        sched_getaffinity(0, sizeof cs, &cs);
                        for (int b = 0; b < 128; ++b) if (CPU_ISSET(b, &cs)) got += std::to_string(b) + ",";
                        gw = pika::get_worker_thread_num();
                    }));
                proc::emit_probe("os" + std::to_string(gw), got);
            }
        }
    }
    pika::finalize();
    return pika::stop();
}

int main(int argc, char** argv)
{
    if (argc >= 2 && std::string(argv[1]) == "--probe")
    {
        argv[1] = argv[0];
        return probe_main(argc - 1, argv + 1);
    }
    Target T;
    T.property = "C15";
    T.engine = "E-proc";
    T.forked = true;
    T.tape_scale = 2;
    T.child_timeout_s = 60;
    T.describe = describe;
    T.run = run;
    T.signature = [](tape_t const& tape, Outcome const& o) {
        Case c = decode(tape);
        return std::string("{\"oracle\": ") + jstr(o.oracle) + ", \"bind\": " + jstr(bind_names[c.bind]) + "}";
    };
    return target_main(argc, argv, T);
}
