// C09 — latch, barrier, event and call_once release exactly when due.   Engine: E-vt.
#include "vt.hpp"

#include <pika/barrier.hpp>
#include <pika/latch.hpp>
#include <pika/synchronization/event.hpp>
#include <pika/synchronization/once.hpp>

using namespace vf;

enum Mode { M_LATCH, M_BARRIER, M_EVENT, M_ONCE };
static char const* const mode_names[] = {"latch", "barrier", "event", "call_once"};

struct Case
{
    int mode = 0;
    int nth = 2;
    // latch: per thread list of count_down amounts, then a final op: 0 none, 1 wait, 2 arrive_and_wait(k), 3 try_wait-poll
    int latch_count = 0;
    std::vector<std::vector<int>> downs;
    std::vector<int> final_op, final_k;
    // barrier
    int phases = 1, extra = 0;                 // thread 0 stands in for 1+extra participants
    std::vector<std::vector<int>> bops;        // per thread per phase: 0 arrive_and_wait, 1 arrive+wait(token), 2 arrive_and_drop (leaves)
    // event
    int resets = 0;
    std::vector<int> wait_delay;
    // once
    int throws = 0;
};

static Case decode(Tape& t)
{
    Case c;
    c.mode = t.weighted({3, 4, 2, 2});
    c.nth = 2 + static_cast<int>(t.below(3));
    switch (c.mode)
    {
    case M_LATCH:
    {
        c.downs.resize(static_cast<std::size_t>(c.nth));
        c.final_op.assign(static_cast<std::size_t>(c.nth), 0);
        c.final_k.assign(static_cast<std::size_t>(c.nth), 0);
        int total = 0;
        for (int i = 0; i < c.nth; ++i)
        {
            int n = static_cast<int>(t.below(3));
            for (int k = 0; k < n; ++k)
            {
                int d = static_cast<int>(t.below(3));    // count_down(0) is legal
                c.downs[static_cast<std::size_t>(i)].push_back(d);
                total += d;
            }
            c.final_op[static_cast<std::size_t>(i)] = t.weighted({1, 3, 3, 1});
            if (c.final_op[static_cast<std::size_t>(i)] == 2)
            {
                c.final_k[static_cast<std::size_t>(i)] = static_cast<int>(t.below(3));
                total += c.final_k[static_cast<std::size_t>(i)];
            }
        }
        c.latch_count = total;    // sum of all decrements == initial count by construction
        break;
    }
    case M_BARRIER:
    {
        c.phases = 1 + static_cast<int>(t.below(6));
        if (t.chance(1, 12)) c.phases = 130;    // crosses the uint8 phase wrap
        c.extra = t.weighted({3, 1, 1, 1});
        c.bops.resize(static_cast<std::size_t>(c.nth));
        std::vector<bool> dropped(static_cast<std::size_t>(c.nth), false);
        int alive = c.nth;
        for (int p = 0; p < c.phases; ++p)
            for (int i = 0; i < c.nth; ++i)
            {
                if (dropped[static_cast<std::size_t>(i)]) continue;
                int op = t.weighted({5, 3, 1});
                // thread 0 never drops (it stands in for extra participants); keep at least one participant
                if (op == 2 && (i == 0 || alive <= 1)) op = 0;
                if (op == 2) { dropped[static_cast<std::size_t>(i)] = true; --alive; }
                c.bops[static_cast<std::size_t>(i)].push_back(op);
            }
        break;
    }
    case M_EVENT:
    {
        c.resets = static_cast<int>(t.below(3));
        for (int i = 1; i < c.nth; ++i) c.wait_delay.push_back(static_cast<int>(t.below(4)));
        break;
    }
    case M_ONCE:
        c.throws = static_cast<int>(t.below(static_cast<std::uint32_t>(c.nth + 1)));
        break;
    }
    return c;
}

static std::string describe(tape_t const& tape)
{
    Tape t(tape);
    Case c = decode(t);
    std::ostringstream os;
    os << "{\"primitive\": \"" << mode_names[c.mode] << "\", \"threads\": " << c.nth;
    if (c.mode == M_LATCH)
    {
        os << ", \"count\": " << c.latch_count << ", \"scripts\": [";
        for (int i = 0; i < c.nth; ++i)
        {
            os << (i ? ", " : "") << "\"";
            for (int d : c.downs[static_cast<std::size_t>(i)]) os << "count_down(" << d << ") ";
            static char const* const fn[] = {"", "wait", "arrive_and_wait", "try_wait-poll"};
            os << fn[c.final_op[static_cast<std::size_t>(i)]];
            if (c.final_op[static_cast<std::size_t>(i)] == 2) os << "(" << c.final_k[static_cast<std::size_t>(i)] << ")";
            os << "\"";
        }
        os << "]";
    }
    else if (c.mode == M_BARRIER)
    {
        os << ", \"expected\": " << c.nth + c.extra << ", \"phases\": " << c.phases << ", \"thread0_stands_for\": " << 1 + c.extra << ", \"ops\": [";
        for (int i = 0; i < c.nth; ++i)
        {
            os << (i ? ", " : "") << "\"";
            std::size_t n = std::min<std::size_t>(c.bops[static_cast<std::size_t>(i)].size(), 12);
            for (std::size_t k = 0; k < n; ++k) os << "AWD"[c.bops[static_cast<std::size_t>(i)][k]];
            if (c.bops[static_cast<std::size_t>(i)].size() > n) os << "...";
            os << "\"";
        }
        os << "]";
    }
    else if (c.mode == M_EVENT) os << ", \"resets\": " << c.resets;
    else os << ", \"throwing_attempts\": " << c.throws;
    os << ", \"schedule_tape_from\": " << t.pos << "}";
    return os.str();
}

static Outcome finish(vt::Sched& s, std::string const& oracle, std::string const& fail, bool nt, std::vector<std::string> tags)
{
    Outcome out;
    if (!fail.empty()) out = Outcome::fail(oracle, fail);
    out.counters["decisions"] = s.decisions;
    out.counters["switches"] = s.switches;
    out.nontrivial = nt;
    out.tags = std::move(tags);
    return out;
}

static Outcome run_latch(Case const& c, Tape& t)
{
    vt::Sched s;
    pika::latch l(c.latch_count);
    long long started = 0;
    long long blocked = 0;
    std::string fail;
    auto check_open = [&](char const* what) {
        if (started < c.latch_count && fail.empty())
            fail = std::string(what) + " returned while only " + std::to_string(started) + " of " + std::to_string(c.latch_count) + " decrements had even started";
    };
    for (int i = 0; i < c.nth; ++i)
    {
        s.add([&, i] {
            for (int d : c.downs[static_cast<std::size_t>(i)])
            {
                started += d;
                l.count_down(d);
            }
            long long sw = s.switches;
            switch (c.final_op[static_cast<std::size_t>(i)])
            {
            case 1:
                l.wait();
                check_open("latch::wait");
                if (s.switches != sw) ++blocked;
                break;
            case 2:
                started += c.final_k[static_cast<std::size_t>(i)];
                l.arrive_and_wait(c.final_k[static_cast<std::size_t>(i)]);
                check_open("latch::arrive_and_wait");
                if (s.switches != sw) ++blocked;
                break;
            case 3:
                for (int k = 0; k < 3; ++k)
                {
                    if (l.try_wait()) { check_open("latch::try_wait()==true"); break; }
                    vt::step();
                }
                break;
            default: break;
            }
        });
    }
    s.diagnose = [&] { return "latch count " + std::to_string(c.latch_count) + ", decrements started " + std::to_string(started) + " (sum of all decrements equals the count by construction)"; };
    s.run(t);
    if (fail.empty() && !l.try_wait()) fail = "all decrements done but try_wait() is false";
    std::vector<std::string> tags{"primitive:latch"};
    if (blocked) tags.push_back("saw:latch_waiter_blocked");
    return finish(s, "latch_released_early", fail, blocked > 0, tags);
}

static Outcome run_barrier(Case const& c, Tape& t)
{
    vt::Sched s;
    int const P = c.phases;
    std::vector<long long> arrivals_started(static_cast<std::size_t>(P) + 2, 0), expected_at(static_cast<std::size_t>(P) + 2, 0),
        completions(static_cast<std::size_t>(P) + 2, 0), departures(static_cast<std::size_t>(P) + 2, 0);
    long long completion_phase = 0;    // number of completion calls so far == index of the phase being completed
    std::string fail;
    // expected participants per phase from the drop scripts
    {
        long long cur = c.nth + c.extra;
        std::vector<std::size_t> pos(static_cast<std::size_t>(c.nth), 0);
        std::vector<bool> dropped(static_cast<std::size_t>(c.nth), false);
        for (int p = 0; p < P; ++p)
        {
            expected_at[static_cast<std::size_t>(p)] = cur;
            for (int i = 0; i < c.nth; ++i)
            {
                if (dropped[static_cast<std::size_t>(i)]) continue;
                if (c.bops[static_cast<std::size_t>(i)][pos[static_cast<std::size_t>(i)]++] == 2) { dropped[static_cast<std::size_t>(i)] = true; --cur; }
            }
        }
    }
    auto completion = [&]() noexcept {
        long long k = completion_phase;
        if (k < P)
        {
            ++completions[static_cast<std::size_t>(k)];
            if (arrivals_started[static_cast<std::size_t>(k)] != expected_at[static_cast<std::size_t>(k)] && fail.empty())
                fail = "completion function of phase " + std::to_string(k) + " ran after " + std::to_string(arrivals_started[static_cast<std::size_t>(k)]) + " of " +
                    std::to_string(expected_at[static_cast<std::size_t>(k)]) + " arrivals";
            if (departures[static_cast<std::size_t>(k)] != 0 && fail.empty()) fail = "a participant left phase " + std::to_string(k) + " before its completion function ran";
        }
        else if (fail.empty()) fail = "completion function ran more often than there are phases";
        ++completion_phase;
    };
    pika::barrier<decltype(completion)> b(c.nth + c.extra, completion);
    for (int i = 0; i < c.nth; ++i)
    {
        s.add([&, i] {
            int p = 0;
            for (int op : c.bops[static_cast<std::size_t>(i)])
            {
                int weight = i == 0 ? 1 + c.extra : 1;
                auto depart = [&] {
                    ++departures[static_cast<std::size_t>(p)];
                    if (completions[static_cast<std::size_t>(p)] != 1 && fail.empty())
                        fail = "thread " + std::to_string(i) + " left phase " + std::to_string(p) + " but its completion function ran " +
                            std::to_string(completions[static_cast<std::size_t>(p)]) + " times (arrivals started " +
                            std::to_string(arrivals_started[static_cast<std::size_t>(p)]) + "/" + std::to_string(expected_at[static_cast<std::size_t>(p)]) + ")";
                };
                arrivals_started[static_cast<std::size_t>(p)] += weight;
                if (op == 2) { b.arrive_and_drop(); return; }
                if (op == 0 && weight == 1) { b.arrive_and_wait(); depart(); }
                else
                {
                    auto tok = b.arrive(weight);
                    vt::step();
                    b.wait(std::move(tok));
                    depart();
                }
                ++p;
            }
        });
    }
    s.diagnose = [&] { return "barrier: completion calls so far " + std::to_string(completion_phase) + " of " + std::to_string(P) + " phases"; };
    s.run(t);
    if (fail.empty())
        for (int p = 0; p < P; ++p)
            if (completions[static_cast<std::size_t>(p)] != 1) { fail = "completion function of phase " + std::to_string(p) + " ran " + std::to_string(completions[static_cast<std::size_t>(p)]) + " times"; break; }
    int expected0 = c.nth + c.extra;
    bool pow2 = (expected0 & (expected0 - 1)) == 0;
    bool any_drop = expected_at[static_cast<std::size_t>(P - 1)] != expected0 || false;
    for (auto const& v : c.bops) for (int op : v) any_drop |= op == 2;
    std::vector<std::string> tags{"primitive:barrier", "expected:" + std::to_string(expected0)};
    if (any_drop) tags.push_back("has:arrive_and_drop");
    if (P >= 128) tags.push_back("has:phase_wrap");
    return finish(s, "barrier_phase", fail, (!pow2 && P >= 3) || any_drop || P >= 128, tags);
}

static Outcome run_event(Case const& c, Tape& t)
{
    vt::Sched s;
    pika::experimental::event ev;
    long long sets_started = 0, blocked = 0;
    std::string fail;
    s.add([&] {
        for (int r = 0; r <= c.resets; ++r)
        {
            ++sets_started;
            ev.set();
            if (r < c.resets) { vt::step(); ev.reset(); vt::step(); }
        }
    });
    for (int i = 1; i < c.nth; ++i)
    {
        s.add([&, i] {
            for (int d = 0; d < c.wait_delay[static_cast<std::size_t>(i - 1)]; ++d) vt::step();
            long long sw = s.switches;
            ev.wait();
            if (s.switches != sw) ++blocked;
            if (sets_started == 0 && fail.empty()) fail = "event::wait returned before any set() had started";
        });
    }
    s.diagnose = [&] { return "event: set() calls started " + std::to_string(sets_started) + "; the last operation on the event is a set()"; };
    s.run(t);
    if (fail.empty() && !ev.occurred()) fail = "event not set at the end";
    std::vector<std::string> tags{"primitive:event"};
    if (blocked) tags.push_back("saw:event_waiter_blocked");
    return finish(s, "event_release", fail, blocked > 0, tags);
}

struct Boom
{
    int who;
};
static Outcome run_once(Case const& c, Tape& t)
{
    vt::Sched s;
    pika::once_flag flag;
    long long attempts = 0, successes = 0, in_body = 0, max_in_body = 0, threw_to_other = 0, concurrent_callers = 0;
    std::string fail;
    for (int i = 0; i < c.nth; ++i)
    {
        s.add([&, i] {
            bool my_attempt_threw = false;
            try
            {
                pika::call_once(flag, [&] {
                    ++attempts;
                    ++in_body;
                    max_in_body = std::max(max_in_body, in_body);
                    vt::step();
                    bool do_throw = attempts <= c.throws;
                    --in_body;
                    if (do_throw) { my_attempt_threw = true; throw Boom{i}; }
                    ++successes;
                });
                if (successes != 1 && fail.empty()) fail = "call_once returned normally to thread " + std::to_string(i) + " while the callable had succeeded " + std::to_string(successes) + " times";
            }
            catch (Boom const& b)
            {
                if ((b.who != i || !my_attempt_threw) && fail.empty()) { fail = "an exception thrown by another caller's attempt reached thread " + std::to_string(i); ++threw_to_other; }
            }
        });
    }
    s.diagnose = [&] { return "call_once: attempts " + std::to_string(attempts) + " successes " + std::to_string(successes); };
    s.run(t);
    if (fail.empty() && max_in_body > 1) fail = "two callers were inside the callable at the same time";
    if (fail.empty() && successes > 1) fail = "callable succeeded " + std::to_string(successes) + " times";
    if (fail.empty() && c.throws < c.nth && successes != 1) fail = "callable succeeded " + std::to_string(successes) + " times with " + std::to_string(c.throws) + " throwing attempts and " + std::to_string(c.nth) + " callers";
    (void) concurrent_callers;
    std::vector<std::string> tags{"primitive:call_once"};
    if (c.throws > 0) tags.push_back("has:throwing_attempt");
    return finish(s, "call_once", fail, c.throws > 0 && c.nth >= 2, tags);
}

static Outcome run(tape_t const& tape)
{
    Tape t(tape);
    Case c = decode(t);
    vt::install_vt_hook();
    switch (c.mode)
    {
    case M_LATCH: return run_latch(c, t);
    case M_BARRIER: return run_barrier(c, t);
    case M_EVENT: return run_event(c, t);
    default: return run_once(c, t);
    }
}

int main(int argc, char** argv)
{
    Target T;
    T.property = "C09";
    T.engine = "E-vt";
    T.forked = true;
    T.tape_scale = 3;
    T.child_timeout_s = 30;
    T.describe = describe;
    T.run = run;
    T.signature = [](tape_t const& tape, Outcome const& o) {
        Tape t(tape);
        Case c = decode(t);
        return std::string("{\"oracle\": ") + jstr(o.oracle) + ", \"primitive\": " + jstr(mode_names[c.mode]) + "}";
    };
    return target_main(argc, argv, T);
}
