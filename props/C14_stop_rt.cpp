// C14 (real-runtime part) — stop callbacks whose bodies suspend the calling *pika task*, deregistered from
// other tasks / OS threads.   Engine: E-rt.
// The E-vt part runs on plain OS threads; what it cannot see is the case the implementation distinguishes
// explicitly: "is the thread that deregisters the callback the task that is running request_stop()?" when
// tasks share OS worker threads and migrate between them while a callback is suspended.
//   oracle: when ~stop_callback returns in a task/thread other than the one executing the callback, the
//   callback body is not running and never starts afterwards; a callback body runs at most once, exactly once
//   if it was registered before request_stop and not deregistered before request_stop returned; a destructor
//   called from inside its own callback returns (no self-wait); every destructor returns once the callback
//   has finished.
#include "rt.hpp"

#include <pika/stop_token.hpp>

#include <functional>
#include <memory>
#include <optional>

using namespace vf;
using namespace vf::rt;

struct CbSpec
{
    int yields = 0;            // pika yields inside the body (suspends the task that runs request_stop)
    bool self_destroy = false; // the body destroys its own stop_callback object
    int destroyer = 0;         // 0 none (destroyed at the end), 1 pika task, 2 OS thread
    int destroy_after = 0;     // the destroyer waits until the body has done this many of its yields (0: does not wait for the body at all)
    int destroyer_hint = -1;
};
struct Case
{
    RtConfig cfg;
    std::vector<CbSpec> cbs;
    int stopper = 0;    // 0 pika task, 1 OS thread
    int stopper_hint = -1;
};

static Case decode(tape_t const& tape)
{
    Tape t(tape);
    Case c;
    c.cfg = decode_config(t, {S_STOP_BEFORE_EXEC, S_STOP_AFTER_EXEC, S_STOP_REMOVE, S_SL_AFTER_RUN});
    c.cfg.workers = t.weighted({4, 3, 2, 1}) + 1;
    c.stopper = t.weighted({4, 1});
    c.stopper_hint = t.chance(1, 3) ? static_cast<int>(t.below(static_cast<std::uint32_t>(c.cfg.workers))) : -1;
    int n = 1 + static_cast<int>(t.below(3));
    for (int i = 0; i < n; ++i)
    {
        CbSpec s;
        s.yields = c.stopper == 0 ? t.weighted({1, 3, 3, 2}) : 0;    // only a task can yield
        s.self_destroy = t.chance(1, 5);
        s.destroyer = s.self_destroy ? 0 : t.weighted({1, 5, 2});
        s.destroy_after = static_cast<int>(t.below(static_cast<std::uint32_t>(s.yields + 1)));
        s.destroyer_hint = t.chance(1, 3) ? static_cast<int>(t.below(static_cast<std::uint32_t>(c.cfg.workers))) : -1;
        c.cbs.push_back(s);
    }
    return c;
}

static std::string describe(tape_t const& tape)
{
    Case c = decode(tape);
    std::ostringstream os;
    os << "{\"config\": " << c.cfg.describe() << ", \"request_stop_from\": \"" << (c.stopper ? "os_thread" : "task") << (c.stopper_hint >= 0 ? "@hint" + std::to_string(c.stopper_hint) : "") << "\", \"callbacks\": [";
    for (std::size_t i = 0; i < c.cbs.size(); ++i)
    {
        auto const& s = c.cbs[i];
        os << (i ? ", " : "") << "\"body yields x" << s.yields << (s.self_destroy ? ", destroys itself" : "")
           << (s.destroyer == 1 ? ", destroyed by task" : s.destroyer == 2 ? ", destroyed by os_thread" : "")
           << (s.destroyer ? " after body yield " + std::to_string(s.destroy_after) : "") << (s.destroyer == 1 && s.destroyer_hint >= 0 ? " hint" + std::to_string(s.destroyer_hint) : "") << "\"";
    }
    os << "]}";
    return os.str();
}

struct Rt;
struct Body
{
    Rt* rt;
    int i;
    void operator()() const noexcept;
};
struct CbRt
{
    std::optional<pika::stop_callback<Body>> cb;
    std::atomic<int> started{0}, finished{0}, in_body{0}, body_yields_done{0};
    std::atomic<int> destroyed{0};          // destructor has returned
    std::atomic<int> in_dtor{0}, dtor_self{0}, dtor_by_task{0};
    std::atomic<std::uint64_t> finished_at_phase{0};
    std::atomic<long long> finished_at_ns{0}, dtor_entered_ns{0};
    std::atomic<void const*> runner{nullptr};    // task (thread_data*) or OS thread marker running the body
};
struct Rt
{
    Case const* c;
    pika::stop_source src;
    std::vector<std::unique_ptr<CbRt>> cbs;
    std::atomic<int> stop_returned{0}, parts_done{0};
    std::atomic<long long> overlapped_dtors{0}, dtor_waited{0};
};

static long long now_ns() { return std::chrono::duration_cast<std::chrono::nanoseconds>(std::chrono::steady_clock::now().time_since_epoch()).count(); }
static thread_local int tl_os_marker = 0;
static void const* me()
{
    auto id = pika::threads::detail::get_self_id();
    if (id != pika::threads::detail::invalid_thread_id) return pika::threads::detail::get_thread_id_data(id);
    return &tl_os_marker;
}

static void destroy(Rt& rt, int i, char const* who)
{
    CbRt& r = *rt.cbs[static_cast<std::size_t>(i)];
    bool self = r.runner.load() == me() && r.in_body.load() == 1;
    bool overlapped = r.in_body.load() == 1;
    r.dtor_entered_ns.store(now_ns());
    r.dtor_self.store(self ? 1 : 0);
    r.dtor_by_task.store(pika::threads::detail::get_self_id() != pika::threads::detail::invalid_thread_id ? 1 : 0);
    r.in_dtor.store(1);
    r.cb.reset();
    r.in_dtor.store(0);
    if (!self && r.in_body.load() == 1)
        fail_now("destructor_returned_while_callback_running", std::string("~stop_callback (called from ") + who + ") returned while the callback body " + std::to_string(i) +
                " is still executing in another task (body yields done: " + std::to_string(r.body_yields_done.load()) + " of " + std::to_string(rt.c->cbs[static_cast<std::size_t>(i)].yields) + ")");
    r.destroyed.store(1);
    if (overlapped && !self) { rt.overlapped_dtors.fetch_add(1); }
}

void Body::operator()() const noexcept
{
    CbRt& r = *rt->cbs[static_cast<std::size_t>(i)];
    CbSpec const& s = rt->c->cbs[static_cast<std::size_t>(i)];
    if (r.destroyed.load()) fail_now("callback_after_destruction", "callback body " + std::to_string(i) + " started after its stop_callback destructor had returned");
    if (r.started.fetch_add(1) != 0) fail_now("callback_twice", "callback body " + std::to_string(i) + " was invoked twice");
    r.runner.store(me());
    r.in_body.store(1);
    for (int k = 0; k < s.yields; ++k)
    {
        pika::this_thread::yield();
        r.runner.store(me());
        r.body_yields_done.store(k + 1);
    }
    if (s.self_destroy)
    {
        // legal: a callback may destroy its own registration; the destructor must not wait for itself
        destroy(*rt, i, "its own callback body");
    }
    r.in_body.store(0);
    r.finished_at_phase.store(G().phase_counter.load());
    r.finished_at_ns.store(now_ns());
    r.finished.store(1);
}

static Outcome run(tape_t const& tape)
{
    Case c = decode(tape);
    restrict_cpus(c.cfg.cpus);
    install_hook(c.cfg);
    start_runtime(c.cfg);
    Rt rt;
    rt.c = &c;
    for (std::size_t i = 0; i < c.cbs.size(); ++i)
    {
        rt.cbs.push_back(std::make_unique<CbRt>());
        rt.cbs.back()->cb.emplace(rt.src.get_token(), Body{&rt, static_cast<int>(i)});
    }
    int parts = 1;
    for (auto const& s : c.cbs) if (s.destroyer) ++parts;
    G().diagnose = [&] {
        std::ostringstream os;
        os << "request_stop returned: " << rt.stop_returned.load() << "; ";
        for (std::size_t i = 0; i < rt.cbs.size(); ++i)
            os << "cb" << i << ": started=" << rt.cbs[i]->started.load() << " finished=" << rt.cbs[i]->finished.load() << " in_dtor=" << rt.cbs[i]->in_dtor.load() << " destroyed=" << rt.cbs[i]->destroyed.load() << "; ";
        return os.str();
    };
    // watchdog for "the destructor never returns although the callback finished": a destructor that waits
    // busy-yields, so the quiescence detector cannot see it; the condition is logical (callback finished,
    // destructor still inside, the runtime executed > 3000 further task activations and 4 s passed)
    std::atomic<int> wd_stop{0};
    std::thread wd([&] {
        while (!wd_stop.load())
        {
            std::this_thread::sleep_for(std::chrono::milliseconds(50));
            for (std::size_t i = 0; i < rt.cbs.size(); ++i)
            {
                CbRt& r = *rt.cbs[i];
                if (r.in_dtor.load() && r.dtor_self.load())
                {
                    // called from inside its own callback: has nothing to wait for at all
                    long long since = now_ns() - r.dtor_entered_ns.load();
                    if (since > 6000000000ll && r.in_dtor.load())
                        fail_now("destructor_waits_for_itself", "~stop_callback of callback " + std::to_string(i) + " was called from inside its own callback body (after " + std::to_string(r.body_yields_done.load()) +
                                " yields of the task that runs request_stop) and has not returned for " + std::to_string(since / 1000000) + " ms");
                }
                else if (r.in_dtor.load() && r.finished.load())
                {
                    long long since = now_ns() - std::max(r.finished_at_ns.load(), r.dtor_entered_ns.load());
                    std::uint64_t acts = G().phase_counter.load() - r.finished_at_phase.load();
                    bool enough = r.dtor_by_task.load() ? (since > 4000000000ll && acts > 3000) : since > 8000000000ll;
                    if (enough && r.in_dtor.load())
                        fail_now("destructor_never_returns", "~stop_callback of callback " + std::to_string(i) + " is still waiting " + std::to_string(since / 1000000) + " ms and " + std::to_string(acts) +
                                " task activations after its callback body finished");
                }
            }
        }
    });
    Quiescence q;
    q.start();
    std::vector<std::thread> os_threads;
    auto stopper_fn = [&] {
        bool r = rt.src.request_stop();
        if (!r) fail_now("request_stop_result", "the only request_stop() call returned false");
        rt.stop_returned.store(1);
        rt.parts_done.fetch_add(1);
    };
    for (std::size_t i = 0; i < c.cbs.size(); ++i)
    {
        CbSpec const& s = c.cbs[i];
        if (!s.destroyer) continue;
        int idx = static_cast<int>(i);
        auto fn = [&rt, idx, s](char const* who, bool task) {
            CbRt& r = *rt.cbs[static_cast<std::size_t>(idx)];
            if (s.destroy_after > 0)
                while (r.body_yields_done.load() < s.destroy_after && !r.finished.load())
                {
                    if (task) pika::this_thread::yield(); else std::this_thread::yield();
                }
            destroy(rt, idx, who);
            rt.parts_done.fetch_add(1);
        };
        if (s.destroyer == 1)
        {
            ex::thread_pool_scheduler sched{};
            if (s.destroyer_hint >= 0) sched = ex::with_hint(sched, pika::execution::thread_schedule_hint(static_cast<std::int16_t>(s.destroyer_hint)));
            ex::execute(sched, [fn] { fn("a pika task", true); });
        }
        else
        {
            os_threads.emplace_back([fn] { ExternalActor ea; fn("an OS thread", false); });
        }
    }
    if (c.stopper == 0)
    {
        ex::thread_pool_scheduler sched{};
        if (c.stopper_hint >= 0) sched = ex::with_hint(sched, pika::execution::thread_schedule_hint(static_cast<std::int16_t>(c.stopper_hint)));
        ex::execute(sched, stopper_fn);
    }
    else os_threads.emplace_back([&] { ExternalActor ea; stopper_fn(); });
    {
        MainWaiting mw;
        for (auto& th : os_threads) th.join();
        pika::wait();
    }
    wd_stop.store(1);
    wd.join();
    Outcome out;
    if (rt.parts_done.load() != parts) out = Outcome::fail("scenario_incomplete", "wait() returned but only " + std::to_string(rt.parts_done.load()) + " of " + std::to_string(parts) + " actors finished");
    for (std::size_t i = 0; i < rt.cbs.size() && out.kind == Outcome::PASS; ++i)
    {
        CbRt& r = *rt.cbs[i];
        CbSpec const& s = c.cbs[i];
        if (r.started.load() > 1) out = Outcome::fail("callback_twice", "callback " + std::to_string(i) + " ran " + std::to_string(r.started.load()) + " times");
        else if (r.started.load() != r.finished.load()) out = Outcome::fail("callback_unfinished", "callback " + std::to_string(i) + " started but did not finish before request_stop returned");
        else if (!s.destroyer && r.started.load() != 1) out = Outcome::fail("callback_not_run", "callback " + std::to_string(i) + " was registered during request_stop() and never deregistered, but did not run");
    }
    // leftover registrations are destroyed now (after request_stop returned)
    for (std::size_t i = 0; i < rt.cbs.size(); ++i)
        if (rt.cbs[i]->cb) rt.cbs[i]->cb.reset();
    q.enter_stop_mode([] { return true; });
    if (out.kind == Outcome::PASS) stop_runtime();
    q.finish();
    add_monitor_counters(out);
    out.counters["dtor_overlapping_running_callback"] = rt.overlapped_dtors.load();
    out.nontrivial = rt.overlapped_dtors.load() > 0;
    if (rt.overlapped_dtors.load() > 0) out.tags.push_back("saw:dtor_waited_for_suspended_callback");
    out.tags.push_back(std::string("workers:") + std::to_string(c.cfg.workers));
    out.tags.push_back(c.stopper ? "stopper:os_thread" : "stopper:task");
    return out;
}

int main(int argc, char** argv)
{
    Target T;
    T.property = "C14";
    T.engine = "E-rt";
    T.forked = true;
    T.tape_scale = 2;
    T.child_timeout_s = 60;
    T.describe = describe;
    T.run = run;
    T.signature = [](tape_t const&, Outcome const& o) { return std::string("{\"oracle\": ") + jstr(o.oracle) + "}"; };
    return target_main(argc, argv, T);
}
