// C19 — suspending and resuming pools or workers never loses work.   Engine: E-rt.
#include "rt.hpp"

#include <pika/semaphore.hpp>

#include <memory>

#include <pika/execution.hpp>
#include <pika/threading_base/thread_num_tss.hpp>

using namespace vf;
using namespace vf::rt;

static char const* const pol_names[] = {"local", "local_priority_fifo", "local_priority_lifo", "static", "static_priority", "abp_priority_fifo", "abp_priority_lifo"};

enum OpK { O_SUSPEND_PU, O_RESUME_PU, O_SUSPEND_POOL_RESUME, O_BURST, O_BURST_RACING_SUSPEND, O_WAIT_PROGRESS, O_REFUSAL_SELF_SUSPEND };
static char const* const op_names[] = {"suspend_pu", "resume_pu", "suspend_pool+resume_pool", "burst", "burst||suspend_pu", "wait_progress", "probe:pool_suspends_itself"};
struct Op
{
    int k, pu, m, hint;
    bool from_task;    // issue the suspend/resume from a task of the controller (default) pool instead of the main OS thread
    bool yielding;
};
struct Case
{
    RtConfig cfg;
    int tgt_policy = 1, tgt_size = 2, ctl_size = 2;
    bool elastic = true;
    bool refusal_ec = false;    // refusal probe uses the error_code form
    std::vector<Op> ops;
    int nblocked = 0;    // tasks of the target pool that stay blocked (suspended) during the whole history and are released at the end
};

static Case decode(tape_t const& tape)
{
    Tape t(tape);
    Case c;
    c.cfg = decode_config(t, {S_SL_AFTER_RUN, S_DO_YIELD, S_STS_BEFORE_SCHEDULE});
    c.tgt_policy = static_cast<int>(t.below(7));
    c.tgt_size = 2 + static_cast<int>(t.below(5));
    c.ctl_size = 2 + static_cast<int>(t.below(2));
    c.elastic = !t.chance(1, 5);
    c.refusal_ec = t.chance(1, 2);
    c.cfg.workers = c.tgt_size + c.ctl_size;
    // pass 1: draw the raw operations (every tape draw happens here, in a fixed order)
    int n = 1 + static_cast<int>(t.below(14));
    for (int i = 0; i < n; ++i)
    {
        Op o;
        o.k = t.weighted({4, 3, 1, 5, 3, 3, 1});
        o.pu = static_cast<int>(t.below(static_cast<std::uint32_t>(c.tgt_size)));
        o.m = 1 + static_cast<int>(t.below(12));
        o.hint = t.chance(1, 2) ? static_cast<int>(t.below(static_cast<std::uint32_t>(c.tgt_size))) : -1;
        o.from_task = t.chance(1, 3);
        o.yielding = t.chance(1, 2);
        c.ops.push_back(o);
    }
    c.nblocked = t.pick({0, 2, 0, 5, 9});    // (drawn last: shorter, older tapes decode to 0)
    // pass 2: make the history well-formed.  The model of which workers sleep must follow the operations that
    // are really issued, so every rewrite of an operation happens before the model is advanced over it.
    std::vector<bool> susp(static_cast<std::size_t>(c.tgt_size), false);
    int running = c.tgt_size;
    for (Op& o : c.ops)
    {
        // pool-level suspend_direct() waits for the pool to drain (documented): it cannot be combined with tasks that stay blocked
        if (c.nblocked > 0 && o.k == O_SUSPEND_POOL_RESUME) o.k = O_BURST;
        if (!c.elastic)
        {
            // without elasticity only the refusal probe, bursts and pool-level suspension make sense
            if (o.k == O_SUSPEND_PU || o.k == O_RESUME_PU || o.k == O_BURST_RACING_SUSPEND) o.k = O_SUSPEND_PU;    // becomes a refusal probe
        }
        else
        {
            if (o.k == O_SUSPEND_PU || o.k == O_BURST_RACING_SUSPEND)
            {
                // never suspend the last running worker
                if (susp[static_cast<std::size_t>(o.pu)] || running <= 1) { o.k = O_BURST; }
                else { susp[static_cast<std::size_t>(o.pu)] = true; --running; }
            }
            else if (o.k == O_RESUME_PU)
            {
                if (!susp[static_cast<std::size_t>(o.pu)]) o.k = O_BURST;
                else { susp[static_cast<std::size_t>(o.pu)] = false; ++running; }
            }
            else if (o.k == O_SUSPEND_POOL_RESUME)
            {
                // pool level suspend resumes everything afterwards
                for (std::size_t k = 0; k < susp.size(); ++k) susp[k] = false;
                running = c.tgt_size;
            }
        }
    }
    return c;
}

static std::string describe(tape_t const& tape)
{
    Case c = decode(tape);
    std::ostringstream os;
    os << "{\"target_pool\": \"" << pol_names[c.tgt_policy] << " x" << c.tgt_size << (c.elastic ? " elastic" : " NOT elastic") << (c.cfg.stealing ? " stealing" : " no-stealing")
       << "\", \"controller_pool_workers\": " << c.ctl_size << ", \"history\": [";
    for (std::size_t i = 0; i < c.ops.size(); ++i)
    {
        auto const& o = c.ops[i];
        os << (i ? ", " : "") << "\"" << op_names[o.k];
        if (o.k == O_SUSPEND_PU || o.k == O_RESUME_PU || o.k == O_BURST_RACING_SUSPEND) os << "(" << o.pu << ")" << (o.from_task ? " from task" : " from OS thread");
        if (o.k == O_RESUME_PU && o.m >= 7) os << " then " << (o.m - 6) * 10 << " back-to-back suspend/resume cycles";
        if (o.k == O_BURST || o.k == O_BURST_RACING_SUSPEND) os << " m=" << o.m << " hint=" << o.hint << (o.yielding ? " yielding" : "");
        os << "\"";
    }
    os << "], \"tasks_blocked_throughout\": " << c.nblocked << ", \"refusal_form\": \"" << (c.refusal_ec ? "error_code" : "throws") << "\"}";
    return os.str();
}

struct World
{
    Case const* c = nullptr;
    pika::threads::detail::thread_pool_base* tgt = nullptr;
    pika::threads::detail::thread_pool_base* ctl = nullptr;
    std::atomic<long long> submitted{0}, entered{0}, finished{0};
    std::atomic<int> definitely_suspended[16];
    std::atomic<int> pool_definitely_suspended{0};
    std::atomic<long long> ran_hinted_to_sleeping{0}, stranded_until_resume{0}, refusals{0};
    // tasks that stay blocked on `gate` during the whole history (a worker must be able to sleep with suspended tasks in its map)
    pika::counting_semaphore<> gate{0};
    std::atomic<int> blocked_in{0}, blocked_out{0};
};

static void body(World& W, bool yielding)
{
    W.entered.fetch_add(1);
    auto check = [&] {
        if (static_cast<int>(pika::threads::detail::get_thread_pool_num_tss()) != 1) return;    // only target pool workers are judged
        std::size_t lw = pika::get_local_worker_thread_num();
        if (lw < 16 && W.definitely_suspended[lw].load())
            fail_now("ran_on_suspended_worker", "a task body ran on worker " + std::to_string(lw) + " of the target pool after suspend_processing_unit returned and before resume was called");
        if (W.pool_definitely_suspended.load())
            fail_now("ran_on_suspended_pool", "a task body ran on the target pool while the pool was suspended");
    };
    check();
    if (yielding) for (int k = 0; k < 3; ++k) { pika::this_thread::yield(); check(); }
    volatile int x = 0;
    for (int k = 0; k < 2000; ++k) x = x + 1;
    W.finished.fetch_add(1);
}

static void burst(World& W, Op const& o)
{
    for (int i = 0; i < o.m; ++i)
    {
        ex::thread_pool_scheduler s{W.tgt};
        if (o.hint >= 0) s = ex::with_hint(s, pika::execution::thread_schedule_hint(static_cast<std::int16_t>(o.hint)));
        W.submitted.fetch_add(1);
        bool y = o.yielding;
        ex::execute(s, [&W, y] { body(W, y); });
    }
}

// (the statement: "the calls themselves return" -> every issued suspend/resume call is a bounded call)
template <typename F>
static void issue(World& W, bool from_task, std::string what, F f)
{
    BoundedCall bc(std::move(what) + (from_task ? " issued from a task of another pool" : " issued from the main OS thread"));
    if (!from_task) { MainWaiting mw("suspend/resume call issued from the main OS thread"); f(); return; }
    std::atomic<int> done{0};
    ex::execute(ex::thread_pool_scheduler{W.ctl}, [&] { f(); done.store(1); });
    MainWaiting mw("suspend/resume call issued from a controller task");
    while (!done.load()) { struct timespec ts { 0, 100000 }; nanosleep(&ts, nullptr); }
}

static Outcome run(tape_t const& tape)
{
    Case c = decode(tape);
    restrict_cpus(0);
    install_hook(c.cfg);
    World W;
    W.c = &c;
    for (auto& a : W.definitely_suspended) a.store(0);
    pika::init_params ip;
    ip.rp_callback = [&](pika::resource::partitioner& rp, pika::program_options::variables_map const&) {
        std::vector<pika::resource::pu const*> pus;
        for (auto const& d : rp.sockets())
            for (auto const& co : d.cores())
                for (auto const& p : co.pus()) pus.push_back(&p);
        unsigned mode = 0x001 | 0x010 | 0x080;
        if (c.cfg.stealing) mode |= 0x004 | 0x008;
        if (c.elastic) mode |= 0x002;
        rp.create_thread_pool("tgt", static_cast<pika::resource::scheduling_policy>(c.tgt_policy), static_cast<pika::threads::scheduler_mode>(mode));
        for (int k = 0; k < c.tgt_size; ++k) rp.add_resource(*pus[static_cast<std::size_t>(c.ctl_size + k)], "tgt");
    };
    {
        static ArgvHolder ah;
        RtConfig cfg = c.cfg;
        cfg.policy = 0;
        ah.s = config_args(cfg);
        ah.build();
        pika::start(nullptr, static_cast<int>(ah.s.size()), ah.p.data(), ip);
    }
    W.ctl = &pika::resource::get_thread_pool("default");
    W.tgt = &pika::resource::get_thread_pool("tgt");
    if (static_cast<int>(W.tgt->get_os_thread_count()) != c.tgt_size)
    {
        Outcome o;
        o.kind = Outcome::DISCARD;
        pika::finalize();
        pika::stop();
        return o;
    }
    Quiescence q;
    q.start();
    G().diagnose = [&] { return "tasks submitted " + std::to_string(W.submitted.load()) + " finished " + std::to_string(W.finished.load()); };
    std::vector<bool> susp(static_cast<std::size_t>(c.tgt_size), false);
    int suspend_resume_pairs = 0;
    Outcome out;
    for (int b = 0; b < c.nblocked; ++b)
    {
        ex::thread_pool_scheduler sb{W.tgt};
        sb = ex::with_hint(sb, pika::execution::thread_schedule_hint(static_cast<std::int16_t>(b % c.tgt_size)));
        ex::execute(sb, [&W] {
            G().expected_suspended.fetch_add(1);
            W.blocked_in.fetch_add(1);
            W.gate.acquire();
            G().expected_suspended.fetch_sub(1);
            W.blocked_out.fetch_add(1);
        });
    }
    {
        MainWaiting mw("initial wait for the blocked tasks");
        while (W.blocked_in.load() < c.nblocked) { struct timespec ts { 0, 100000 }; nanosleep(&ts, nullptr); }
        struct timespec ts { 0, 2000000 };
        nanosleep(&ts, nullptr);    // (let them finish suspending)
    }
    auto wait_all_done = [&](char const* what) {
        // progress must not need a resume: if the runtime goes quiescent with unfinished tasks the detector reports it
        G().awaited_signal_missing = [&] { return W.finished.load() < W.submitted.load(); };
        MainWaitingForSignal mw;
        while (W.finished.load() < W.submitted.load()) { struct timespec ts { 0, 100000 }; nanosleep(&ts, nullptr); }
        (void) what;
    };
    for (Op const& o : c.ops)
    {
        if (out.kind != Outcome::PASS) break;
        switch (o.k)
        {
        case O_SUSPEND_PU:
            if (!c.elastic)
            {
                // refusal probe: documented error, and the worker keeps running
                bool reported = false;
                std::size_t before = W.tgt->get_active_os_thread_count();
                issue(W, false, "refused suspend_processing_unit_direct", [&] {
                    if (c.refusal_ec)
                    {
                        pika::error_code ec(pika::throwmode::lightweight);
                        W.tgt->suspend_processing_unit_direct(static_cast<std::size_t>(o.pu), ec);
                        reported = static_cast<bool>(ec);
                    }
                    else
                    {
                        try { W.tgt->suspend_processing_unit_direct(static_cast<std::size_t>(o.pu)); }
                        catch (pika::exception const& e) { reported = e.get_error() == pika::error::invalid_status; }
                    }
                });
                if (!reported) { out = Outcome::fail("refusal_not_reported", "suspending a processing unit of a pool without elasticity was not reported as an error"); break; }
                W.refusals.fetch_add(1);
                std::size_t after = W.tgt->get_active_os_thread_count();
                // every worker must still run work: hinted probes on a non-stealing layout, or simply the active count
                if (after != before)
                {
                    out = Outcome::fail("refused_operation_had_effect", std::string("suspend_processing_unit_direct(") + std::to_string(o.pu) + (c.refusal_ec ? ", ec" : "") +
                            ") on a pool without elasticity reported an error but the pool went from " + std::to_string(before) + " to " + std::to_string(after) + " active workers");
                    // put it back so that the rest of the case can finish
                    W.tgt->resume_processing_unit_direct(static_cast<std::size_t>(o.pu));
                }
                break;
            }
            issue(W, o.from_task, "suspend_processing_unit_direct(" + std::to_string(o.pu) + ")", [&] { W.tgt->suspend_processing_unit_direct(static_cast<std::size_t>(o.pu)); });
            W.definitely_suspended[o.pu].store(1);
            susp[static_cast<std::size_t>(o.pu)] = true;
            break;
        case O_RESUME_PU:
            W.definitely_suspended[o.pu].store(0);
            issue(W, o.from_task, "resume_processing_unit_direct(" + std::to_string(o.pu) + ")", [&] { W.tgt->resume_processing_unit_direct(static_cast<std::size_t>(o.pu)); });
            susp[static_cast<std::size_t>(o.pu)] = false;
            ++suspend_resume_pairs;
            // back-to-back cycles on the same worker: resume is issued the moment suspend returned, i.e. possibly
            // before the worker has actually gone to sleep (the hand-shake window)
            for (int cyc = 0, ncyc = o.m >= 7 ? (o.m - 6) * 10 : 0; cyc < ncyc; ++cyc)
            {
                issue(W, o.from_task, "suspend_processing_unit_direct(" + std::to_string(o.pu) + ") [back-to-back cycle " + std::to_string(cyc) + "]", [&] { W.tgt->suspend_processing_unit_direct(static_cast<std::size_t>(o.pu)); });
                issue(W, o.from_task, "resume_processing_unit_direct(" + std::to_string(o.pu) + ") right after the suspend returned [back-to-back cycle " + std::to_string(cyc) + "]", [&] { W.tgt->resume_processing_unit_direct(static_cast<std::size_t>(o.pu)); });
                ++suspend_resume_pairs;
            }
            break;
        case O_SUSPEND_POOL_RESUME:
        {
            // suspend_direct waits for the pool to drain, so it is issued from the main thread with nothing blocked
            issue(W, false, "suspend_direct()", [&] { W.tgt->suspend_direct(); });
            W.pool_definitely_suspended.store(1);
            Op b = o;
            b.yielding = false;
            burst(W, b);    // queued while suspended: must run after resume
            struct timespec ts { 0, 1000000 };
            nanosleep(&ts, nullptr);
            W.pool_definitely_suspended.store(0);
            for (auto& a : W.definitely_suspended) a.store(0);
            issue(W, false, "resume_direct()", [&] { W.tgt->resume_direct(); });
            for (std::size_t k = 0; k < susp.size(); ++k) susp[k] = false;
            ++suspend_resume_pairs;
            break;
        }
        case O_BURST: burst(W, o); break;
        case O_BURST_RACING_SUSPEND:
        {
            G().external_actors.fetch_add(1);
            std::thread sub([&] { burst(W, o); G().external_actors.fetch_sub(1); });
            issue(W, o.from_task, "suspend_processing_unit_direct(" + std::to_string(o.pu) + ")", [&] { W.tgt->suspend_processing_unit_direct(static_cast<std::size_t>(o.pu)); });
            W.definitely_suspended[o.pu].store(1);
            susp[static_cast<std::size_t>(o.pu)] = true;
            sub.join();
            break;
        }
        case O_WAIT_PROGRESS:
        {
            // classification only: unhinted work submitted while some workers are definitely asleep; tasks that were
            // queued on a worker at the moment it went to sleep may legally wait for its resume, so no verdict here
            Op b = o;
            b.hint = -1;
            burst(W, b);
            long long need = W.submitted.load();
            {
                MainWaiting mw("wait_progress");
                double t0 = now_s();
                while (W.finished.load() < need && now_s() - t0 < 0.05) { struct timespec ts { 0, 100000 }; nanosleep(&ts, nullptr); }
            }
            if (W.finished.load() < need) W.stranded_until_resume.fetch_add(need - W.finished.load());
            break;
        }
        case O_REFUSAL_SELF_SUSPEND:
        {
            // a task of the target pool asks its own pool to suspend: must be refused, pool keeps running
            // (the result cell is shared, not a local captured by reference: the wait below is bounded, and a task that
            // starts later than that must not write into a dead stack frame)
            auto resp = std::make_shared<std::atomic<int>>(0);
            std::atomic<int>& res = *resp;
            W.submitted.fetch_add(1);
            ex::execute(ex::thread_pool_scheduler{W.tgt}, [&W, resp] {
                W.entered.fetch_add(1);
                try { W.tgt->suspend_direct(); resp->store(2); }
                catch (pika::exception const&) { resp->store(1); }
                W.finished.fetch_add(1);
            });
            {
                MainWaiting mw("self-suspend probe");
                double t0 = now_s();
                while (!res.load() && now_s() - t0 < 20.0) { struct timespec ts { 0, 100000 }; nanosleep(&ts, nullptr); }
            }
            if (res.load() == 2) out = Outcome::fail("self_suspend_not_refused", "a task of the pool suspended its own pool without an error");
            else if (res.load() == 1) W.refusals.fetch_add(1);
            break;
        }
        }
    }
    // final: resume everything, all work must complete (nothing dropped, nothing duplicated)
    for (std::size_t k = 0; k < susp.size(); ++k)
        if (susp[k])
        {
            W.definitely_suspended[k].store(0);
            BoundedCall bc("final resume_processing_unit_direct(" + std::to_string(k) + ") from the main OS thread");
            W.tgt->resume_processing_unit_direct(k);
        }
    if (out.kind == Outcome::PASS)
    {
        wait_all_done("final");
        // now release the tasks that were blocked all along: they must all still be there
        if (c.nblocked > 0)
        {
            W.gate.release(c.nblocked);
            G().awaited_signal_missing = [&] { return W.blocked_out.load() < c.nblocked; };
            MainWaitingForSignal mw;
            while (W.blocked_out.load() < c.nblocked) { struct timespec ts { 0, 100000 }; nanosleep(&ts, nullptr); }
        }
        G().awaited_signal_missing = nullptr;
        {
            MainWaiting mw("pika::wait()");
            pika::wait();
        }
        if (W.entered.load() != W.submitted.load() || W.finished.load() != W.submitted.load())
            out = Outcome::fail("ledger", "submitted " + std::to_string(W.submitted.load()) + " entered " + std::to_string(W.entered.load()) + " finished " + std::to_string(W.finished.load()));
    }
    q.enter_stop_mode([] { return true; });
    stop_runtime();
    q.finish();
    add_monitor_counters(out);
    out.counters["tasks"] = W.submitted.load();
    out.counters["suspend_resume_pairs"] = suspend_resume_pairs;
    if (c.nblocked > 0) out.tags.push_back("has:tasks_blocked_throughout");
    out.counters["refusal_probes_ok"] = W.refusals.load();
    out.counters["tasks_unfinished_50ms_after_burst_with_sleeping_workers"] = W.stranded_until_resume.load();
    bool racing = false;
    for (auto const& o : c.ops) racing |= o.k == O_BURST_RACING_SUSPEND;
    out.nontrivial = (suspend_resume_pairs >= 2 && racing) || W.refusals.load() > 0;
    out.tags.push_back(std::string("target:") + pol_names[c.tgt_policy]);
    out.tags.push_back(c.elastic ? "elastic" : "not_elastic");
    if (racing) out.tags.push_back("has:burst_racing_suspend");
    if (W.refusals.load()) out.tags.push_back("saw:refusal_probe");
    return out;
}

int main(int argc, char** argv)
{
    Target T;
    T.property = "C19";
    T.engine = "E-rt";
    T.forked = true;
    T.tape_scale = 3;
    T.child_timeout_s = 90;
    T.describe = describe;
    T.run = run;
    T.signature = [](tape_t const& tape, Outcome const& o) {
        Case c = decode(tape);
        return std::string("{\"oracle\": ") + jstr(o.oracle) + ", \"form\": " + (c.refusal_ec ? "\"error_code\"" : "\"throws\"") + "}";
    };
    return target_main(argc, argv, T);
}
