// C02 — no lost wake-up: a resumed task always runs again.   Engine: E-rt (ping-pong channels).
// Each channel = (blocking facility, waiter task, waker on a task or on a plain OS thread, R rounds).
// In every round the waker issues the wake-up through the facility and then waits for the waiter's
// acknowledgement; perturbation plans at the hand-off sites are mandatory.  Oracle: the state-based
// quiescence detector must never find "wake-up issued, waiter still suspended, runtime quiescent",
// and every channel completes all its rounds.
#include "rt.hpp"

#include <pika/condition_variable.hpp>
#include <pika/latch.hpp>
#include <pika/mutex.hpp>
#include <pika/semaphore.hpp>
#include <pika/synchronization/event.hpp>

using namespace vf;
using namespace vf::rt;

enum Fac { F_SEM, F_CV_MUTEX, F_CV_ANY_SPIN, F_LATCH, F_EVENT, F_JOIN, F_SYNC_WAIT, F_COUNT };
static char const* const fac_names[] = {"semaphore", "cv+pika::mutex", "cv_any+spinlock", "latch", "event", "thread::join", "sync_wait"};

struct Channel
{
    int fac = 0;
    bool os_waker = false;
    int rounds = 1;
    int waiter_hint = -1, waker_hint = -1;
    int waiter_prio = 0;
    int d_waker[3] = {0, 0, 0}, d_waiter[3] = {0, 0, 0};    // delay codes cycled over rounds
    bool notify_all = false;
    bool notify_under_lock = false;
};
struct Case
{
    RtConfig cfg;
    std::vector<Channel> ch;
    // bystanders: tasks parked on a latch for the whole case, so that every queue's thread map sits above
    // pika.thread_queue.max_thread_count while the channels play ping-pong (wake-up helper tasks and woken tasks must
    // still get converted / scheduled on such "full" queues)
    int crowd = 0;
};

static Case decode(tape_t const& tape)
{
    Tape t(tape);
    Case c;
    c.cfg = decode_config(t, {S_CV_WAIT, S_DO_YIELD, S_SL_AFTER_RUN, S_SL_AFTER_STORE, S_STS_BEFORE_CAS, S_STS_BEFORE_SCHEDULE,
                                 S_SET_ACTIVE_STATE, S_STS_ACTIVE_HELPER, S_CV_NOTIFY_ONE, S_CV_NOTIFY_ALL, S_THREAD_JOIN,
                                 S_EXIT_CALLBACKS, S_SEM_SIGNAL, S_LATCH_NOTIFY, S_MUTEX_UNLOCK, S_MUTEX_LOCK_WAIT});
    // few workers mostly: the hand-off windows are easier to hit
    c.cfg.workers = t.weighted({4, 4, 2, 2, 1, 1, 1, 1}) + 1;
    // perturbation is mandatory for this property
    if (c.cfg.plan.empty())
    {
        Perturb p;
        p.site = t.pick({S_CV_WAIT, S_SL_AFTER_RUN, S_STS_BEFORE_CAS, S_DO_YIELD});
        p.period = t.pick({1, 2, 3});
        p.action = static_cast<int>(t.below(3));
        p.dur = static_cast<int>(t.below(6));
        c.cfg.plan.push_back(p);
    }
    int n = t.weighted({4, 3, 2, 1, 1, 1}) + 1;
    for (int i = 0; i < n; ++i)
    {
        Channel ch;
        ch.fac = static_cast<int>(t.below(F_COUNT));
        ch.os_waker = t.chance(1, 3);
        if (ch.fac == F_CV_MUTEX || ch.fac == F_JOIN || ch.fac == F_SYNC_WAIT) ch.os_waker = ch.fac == F_SYNC_WAIT ? ch.os_waker : false;
        ch.rounds = t.pick({1, 3, 10, 30, 60});
        ch.waiter_hint = t.chance(1, 2) ? static_cast<int>(t.below(static_cast<std::uint32_t>(c.cfg.workers))) : -1;
        ch.waker_hint = t.chance(1, 2) ? (t.chance(1, 2) ? ch.waiter_hint : static_cast<int>(t.below(static_cast<std::uint32_t>(c.cfg.workers)))) : -1;
        ch.waiter_prio = t.weighted({6, 1, 1});    // normal, high, boost (never below the waker: no starvation games)
        for (int k = 0; k < 3; ++k) ch.d_waker[k] = static_cast<int>(t.below(5));
        for (int k = 0; k < 3; ++k) ch.d_waiter[k] = static_cast<int>(t.below(5));
        ch.notify_all = t.chance(1, 3);
        ch.notify_under_lock = t.chance(1, 2);
        c.ch.push_back(ch);
    }
    {
        int per_worker = t.pick({0, 0, 14, 40});
        if (c.cfg.workers <= 2 && t.chance(1, 10)) per_worker = 1000;
        c.crowd = per_worker * c.cfg.workers;
    }
    return c;
}

static std::string describe(tape_t const& tape)
{
    Case c = decode(tape);
    std::ostringstream os;
    os << "{\"config\": " << c.cfg.describe() << ", \"channels\": [";
    for (std::size_t i = 0; i < c.ch.size(); ++i)
    {
        auto const& h = c.ch[i];
        os << (i ? ", " : "") << "{\"facility\": \"" << fac_names[h.fac] << "\", \"waker\": \"" << (h.os_waker ? "os_thread" : "task")
           << "\", \"rounds\": " << h.rounds << ", \"waiter_hint\": " << h.waiter_hint << ", \"waker_hint\": " << h.waker_hint
           << ", \"waiter_prio\": " << h.waiter_prio << ", \"delays_waker\": [" << h.d_waker[0] << "," << h.d_waker[1] << "," << h.d_waker[2]
           << "], \"delays_waiter\": [" << h.d_waiter[0] << "," << h.d_waiter[1] << "," << h.d_waiter[2] << "], \"notify_all\": "
           << (h.notify_all ? "true" : "false") << ", \"notify_under_lock\": " << (h.notify_under_lock ? "true" : "false") << "}";
    }
    os << "], \"parked_bystander_tasks\": " << c.crowd << "}";
    return os.str();
}

// ------------------------------------------------------------------------------------------------
struct ChanRt
{
    Channel spec;
    // ping (facility under test) and pong (acknowledgement)
    pika::counting_semaphore<> sem{0};
    pika::mutex mtx;
    pika::condition_variable cv;
    pika::concurrency::detail::spinlock spin;
    pika::condition_variable_any cva;
    int token = 0;    // protected by mtx / spin
    std::vector<std::unique_ptr<pika::latch>> latches;
    std::vector<std::unique_ptr<pika::experimental::event>> events;
    std::vector<std::unique_ptr<pika::counting_semaphore<>>> sw_sems;    // sync_wait rounds
    // ack: task waker waits on ack_sem; OS waker polls ack counter
    pika::counting_semaphore<> ack_sem{0};
    std::atomic<int> ack{0};
    std::atomic<int> issued{0}, got{0};
    std::atomic<int> waiter_in_wait{0};
    std::atomic<int> done{0};
};

static void delay(int code, bool on_task)
{
    switch (code)
    {
    case 0: break;
    case 1: { volatile int x = 0; for (int k = 0; k < 200; ++k) x = x + 1; break; }
    case 2: { volatile int x = 0; for (int k = 0; k < 20000; ++k) x = x + 1; break; }
    case 3: if (on_task) pika::this_thread::yield(); else sched_yield(); break;
    case 4: if (on_task) { pika::this_thread::yield(); pika::this_thread::yield(); } else { struct timespec ts { 0, 30000 }; nanosleep(&ts, nullptr); } break;
    }
}

static void issue(ChanRt& c, int r)
{
    switch (c.spec.fac)
    {
    case F_SEM: c.sem.release(1); break;
    case F_CV_MUTEX:
    {
        std::unique_lock<pika::mutex> l(c.mtx);
        c.token = r + 1;
        if (c.spec.notify_under_lock) { if (c.spec.notify_all) c.cv.notify_all(); else c.cv.notify_one(); }
        l.unlock();
        if (!c.spec.notify_under_lock) { if (c.spec.notify_all) c.cv.notify_all(); else c.cv.notify_one(); }
        break;
    }
    case F_CV_ANY_SPIN:
    {
        std::unique_lock<pika::concurrency::detail::spinlock> l(c.spin);
        c.token = r + 1;
        l.unlock();
        if (c.spec.notify_all) c.cva.notify_all(); else c.cva.notify_one();
        break;
    }
    case F_LATCH: c.latches[static_cast<std::size_t>(r)]->count_down(1); break;
    case F_EVENT: c.events[static_cast<std::size_t>(r)]->set(); break;
    case F_SYNC_WAIT: c.sw_sems[static_cast<std::size_t>(r)]->release(1); break;
    default: break;
    }
    c.issued.store(r + 1);
}

static void wait_for_token(ChanRt& c, int r)
{
    c.waiter_in_wait.store(1);
    switch (c.spec.fac)
    {
    case F_SEM: c.sem.acquire(); break;
    case F_CV_MUTEX:
    {
        std::unique_lock<pika::mutex> l(c.mtx);
        c.cv.wait(l, [&] { return c.token >= r + 1; });
        break;
    }
    case F_CV_ANY_SPIN:
    {
        std::unique_lock<pika::concurrency::detail::spinlock> l(c.spin);
        c.cva.wait(l, [&] { return c.token >= r + 1; });
        break;
    }
    case F_LATCH: c.latches[static_cast<std::size_t>(r)]->wait(); break;
    case F_EVENT: c.events[static_cast<std::size_t>(r)]->wait(); break;
    case F_SYNC_WAIT:
    {
        // the waiter blocks in sync_wait on work that itself blocks until the waker released it
        auto* s = c.sw_sems[static_cast<std::size_t>(r)].get();
        pika::this_thread::experimental::sync_wait(
            ex::then(ex::schedule(ex::thread_pool_scheduler{}), [s] { s->acquire(); }));
        break;
    }
    default: break;
    }
    c.waiter_in_wait.store(0);
    c.got.store(r + 1);
}

static Outcome run(tape_t const& tape)
{
    Case c = decode(tape);
    restrict_cpus(c.cfg.cpus);
    install_hook(c.cfg);
    start_runtime(c.cfg);
    std::vector<std::unique_ptr<ChanRt>> chans;
    for (auto const& s : c.ch)
    {
        auto r = std::make_unique<ChanRt>();
        r->spec = s;
        for (int k = 0; k < s.rounds; ++k)
        {
            if (s.fac == F_LATCH || s.fac == F_JOIN) r->latches.push_back(std::make_unique<pika::latch>(1));
            if (s.fac == F_EVENT) r->events.push_back(std::make_unique<pika::experimental::event>());
            if (s.fac == F_SYNC_WAIT) r->sw_sems.push_back(std::make_unique<pika::counting_semaphore<>>(0));
        }
        chans.push_back(std::move(r));
    }
    G().diagnose = [&] {
        std::ostringstream os;
        for (std::size_t i = 0; i < chans.size(); ++i)
        {
            auto& ch = *chans[i];
            if (ch.done.load() >= 2) continue;
            os << "channel " << i << " (" << fac_names[ch.spec.fac] << ", waker=" << (ch.spec.os_waker ? "os" : "task")
               << "): wake-ups issued=" << ch.issued.load() << " received=" << ch.got.load() << " acked=" << ch.ack.load()
               << " waiter_in_wait=" << ch.waiter_in_wait.load() << "; ";
        }
        return os.str();
    };
    G().stranded_after_samples = 100;
    Quiescence q;
    q.start();
    std::vector<std::thread> os_threads;
    // bystanders first; they are released by whoever finishes the last channel
    pika::latch crowd_latch(1);
    std::atomic<int> parts_left{2 * static_cast<int>(chans.size())};
    std::atomic<int> crowd_parked{0};
    auto part_done = [&](int n) {
        if (parts_left.fetch_sub(n) == n) crowd_latch.count_down(1);
    };
    for (int k = 0; k < c.crowd; ++k)
        ex::execute(ex::thread_pool_scheduler{}, [&] { crowd_parked.fetch_add(1); crowd_latch.wait(); });
    if (chans.empty()) crowd_latch.count_down(1);
    auto prio_of = [](int k) {
        using P = pika::execution::thread_priority;
        return k == 0 ? P::normal : k == 1 ? P::high : P::boost;
    };
    for (auto& up : chans)
    {
        ChanRt* ch = up.get();
        ex::thread_pool_scheduler sched{};
        auto ws = ex::with_priority(sched, prio_of(ch->spec.waiter_prio));
        if (ch->spec.waiter_hint >= 0)
            ws = ex::with_hint(ws, pika::execution::thread_schedule_hint(static_cast<std::int16_t>(ch->spec.waiter_hint)));
        auto ks = sched;
        if (ch->spec.waker_hint >= 0)
            ks = ex::with_hint(ks, pika::execution::thread_schedule_hint(static_cast<std::int16_t>(ch->spec.waker_hint)));

        if (ch->spec.fac == F_JOIN)
        {
            // waiter creates a pika::thread per round and joins it; the "waker" is the thread's termination
            ex::execute(ws, [ch, &part_done] {
                for (int r = 0; r < ch->spec.rounds; ++r)
                {
                    pika::thread th([ch, r] {
                        delay(ch->spec.d_waker[r % 3], true);
                        ch->issued.store(r + 1);
                        ch->latches[static_cast<std::size_t>(r)]->count_down(1);
                    });
                    delay(ch->spec.d_waiter[r % 3], true);
                    if (th.joinable())
                    {
                        ch->waiter_in_wait.store(1);
                        th.join();
                        ch->waiter_in_wait.store(0);
                        if (ch->issued.load() != r + 1) fail_now("join_early", "thread::join returned before the thread body finished");
                    }
                    else
                    {
                        // C13 territory (not joinable after construction): wait for the body without join
                        ch->latches[static_cast<std::size_t>(r)]->wait();
                    }
                    ch->got.store(r + 1);
                    ch->ack.store(r + 1);
                }
                ch->done.store(2);
                part_done(2);
            });
            continue;
        }
        // waiter
        ex::execute(ws, [ch, &part_done] {
            for (int r = 0; r < ch->spec.rounds; ++r)
            {
                delay(ch->spec.d_waiter[r % 3], true);
                wait_for_token(*ch, r);
                ch->ack.store(r + 1);
                if (!ch->spec.os_waker) ch->ack_sem.release(1);
            }
            ch->done.fetch_add(1);
            part_done(1);
        });
        // waker
        if (ch->spec.os_waker)
        {
            G().external_actors.fetch_add(1);
            os_threads.emplace_back([ch, &part_done] {
                for (int r = 0; r < ch->spec.rounds; ++r)
                {
                    delay(ch->spec.d_waker[r % 3], false);
                    issue(*ch, r);
                    // parked: this thread acts again only after a task acknowledged (which moves the phase counter)
                    G().external_actors.fetch_sub(1);
                    while (ch->ack.load() < r + 1)
                    {
                        struct timespec ts { 0, 20000 };
                        nanosleep(&ts, nullptr);
                    }
                    G().external_actors.fetch_add(1);
                }
                ch->done.fetch_add(1);
                part_done(1);
                G().external_actors.fetch_sub(1);
            });
        }
        else
        {
            ex::execute(ks, [ch, &part_done] {
                for (int r = 0; r < ch->spec.rounds; ++r)
                {
                    delay(ch->spec.d_waker[r % 3], true);
                    issue(*ch, r);
                    ch->ack_sem.acquire();
                }
                ch->done.fetch_add(1);
                part_done(1);
            });
        }
    }
    {
        MainWaiting mw;
        for (auto& th : os_threads) th.join();
        pika::wait();
    }
    Outcome out;
    for (std::size_t i = 0; i < chans.size(); ++i)
    {
        auto& ch = *chans[i];
        if (ch.got.load() != ch.spec.rounds || ch.done.load() != 2)
        {
            out = Outcome::fail("rounds_incomplete", "channel " + std::to_string(i) + " (" + fac_names[ch.spec.fac] + ") finished " +
                    std::to_string(ch.got.load()) + "/" + std::to_string(ch.spec.rounds) + " rounds after pika::wait() returned");
            break;
        }
    }
    q.enter_stop_mode([] { return true; });
    if (out.kind == Outcome::PASS) stop_runtime();
    q.finish();
    add_monitor_counters(out);
    long long handoffs = 0;
    for (auto& ch : chans) handoffs += ch->spec.rounds;
    out.counters["handoffs"] = handoffs;
    out.nontrivial = G().active_retry.load() > 0;
    out.tags.push_back(std::string("policy:") + policies[c.cfg.policy]);
    out.tags.push_back("workers:" + std::to_string(c.cfg.workers));
    for (auto& ch : chans) out.tags.push_back(std::string("fac:") + fac_names[ch->spec.fac] + (ch->spec.os_waker ? "/os_waker" : "/task_waker"));
    if (G().active_retry.load() > 0) out.tags.push_back("saw:active_target_helper");
    if (G().suspends.load() > 0) out.tags.push_back("saw:suspend");
    if (c.crowd) out.tags.push_back(c.crowd / c.cfg.workers + 10 > c.cfg.max_thread_count ? "has:parked_bystanders_above_the_queues_thread_limit" : "has:parked_bystanders");
    out.counters["bystanders_parked"] = crowd_parked.load();
    return out;
}

int main(int argc, char** argv)
{
    Target T;
    T.property = "C02";
    T.engine = "E-rt";
    T.forked = true;
    T.tape_scale = 2;
    T.child_timeout_s = 60;
    T.describe = describe;
    T.run = run;
    T.signature = [](tape_t const& t, Outcome const& o) {
        Case c = decode(t);
        return std::string("{\"oracle\": ") + jstr(o.oracle) + ", \"policy\": " + jstr(policies[c.cfg.policy]) + "}";
    };
    return target_main(argc, argv, T);
}
