// C16 — configuration precedence: command line over environment over defaults.   Engine: E-proc.
#include "proc.hpp"

#include <pika/execution.hpp>
#include <pika/init.hpp>
#include <pika/runtime.hpp>
#include <pika/thread.hpp>
#include <pika/topology/cpu_mask.hpp>

using namespace vf;

enum Setting { S_THREADS, S_SCHEDULER, S_SMALL_STACK, S_BIND, S_PROCESS_MASK, S_INI_KEY, S_COUNT };
static char const* const setting_names[] = {"threads", "scheduler", "small_stack_size", "bind", "process_mask", "ini_key"};
enum Source { SRC_ENV, SRC_CMDOPTS, SRC_INI, SRC_OPT, SRC_COUNT };    // increasing precedence
static char const* const source_names[] = {"env", "PIKA_COMMANDLINE_OPTIONS", "--pika:ini", "option"};

static char const* const sched_vals[] = {"local", "static", "static-priority", "local-priority-fifo", "abp-priority-fifo", "shared-priority"};
static char const* const sched_desc[] = {"core-local_queue_scheduler", "core-static_queue_scheduler", "core-static_priority_queue_scheduler",
    "core-local_priority_queue_scheduler", "core-abp_fifo_priority_queue_scheduler", "core-shared_priority_queue_scheduler"};
static char const* const bind_vals[] = {"none", "compact", "balanced", "scatter"};
static long const stack_vals[] = {0x10000, 0x20000, 0x30000, 0x18000, 0x40000};

struct Given
{
    int setting, source, value;    // value = index into the setting's value table (threads: the number itself; mask: see below)
    bool hex = true;               // stack size notation
};
struct Case
{
    std::vector<Given> given;
    int invalid = 0;    // 0 none, 1 threads=abc, 2 threads=0, 3 unknown --pika: option, 4 scheduler=bogus, 5 PIKA_THREADS=xyz, 6 stack size=garbage
    std::vector<std::string> positional;
    std::vector<std::string> tail;    // after "--"
    std::vector<std::uint32_t> order;
    long long avoided = 0;
};

static bool avoid(char const* n)
{
    char const* e = std::getenv("VERIF_AVOID");
    return e && std::strstr(e, n);
}

static Case decode(tape_t const& tape)
{
    Tape t(tape);
    Case c;
    bool avoid_f7 = avoid("cmdopts_plus_option");
    int nset = 1 + t.weighted({3, 3, 2});
    std::vector<int> settings{0, 1, 2, 3, 4, 5};
    for (int k = 0; k < nset && !settings.empty(); ++k)
    {
        std::size_t pick = t.below(static_cast<std::uint32_t>(settings.size()));
        int s = settings[pick];
        settings.erase(settings.begin() + static_cast<long>(pick));
        // which sources exist for the setting
        std::vector<int> srcs;
        switch (s)
        {
        case S_THREADS: case S_SCHEDULER: srcs = {SRC_ENV, SRC_CMDOPTS, SRC_INI, SRC_OPT}; break;
        case S_SMALL_STACK: srcs = {SRC_ENV, SRC_INI}; break;
        case S_BIND: srcs = {SRC_ENV, SRC_INI, SRC_OPT}; break;
        case S_PROCESS_MASK: srcs = {SRC_ENV, SRC_OPT}; break;
        default: srcs = {SRC_INI}; break;
        }
        std::vector<int> chosen;
        for (int src : srcs)
            if (t.chance(k == 0 ? 2 : 1, 3)) chosen.push_back(src);
        if (chosen.empty()) chosen.push_back(srcs[t.below(static_cast<std::uint32_t>(srcs.size()))]);
        // the relative order of a --pika:ini entry and a PIKA_COMMANDLINE_OPTIONS entry is not claimed: never both
        bool has_ini = std::find(chosen.begin(), chosen.end(), SRC_INI) != chosen.end();
        bool has_co = std::find(chosen.begin(), chosen.end(), SRC_CMDOPTS) != chosen.end();
        bool has_opt = std::find(chosen.begin(), chosen.end(), SRC_OPT) != chosen.end();
        if (has_ini && has_co) chosen.erase(std::find(chosen.begin(), chosen.end(), SRC_CMDOPTS));
        has_co = std::find(chosen.begin(), chosen.end(), SRC_CMDOPTS) != chosen.end();
        if (avoid_f7 && has_co && has_opt) { chosen.erase(std::find(chosen.begin(), chosen.end(), SRC_CMDOPTS)); ++c.avoided; }
        std::vector<int> used_vals;
        for (int src : chosen)
        {
            Given g;
            g.setting = s;
            g.source = src;
            int nvals = s == S_THREADS ? 8 : s == S_SCHEDULER ? 6 : s == S_SMALL_STACK ? 5 : s == S_BIND ? 4 : s == S_PROCESS_MASK ? 6 : 4;
            int v;
            int guard = 0;
            do { v = static_cast<int>(t.below(static_cast<std::uint32_t>(nvals))); } while (std::find(used_vals.begin(), used_vals.end(), v) != used_vals.end() && ++guard < 20);
            if (std::find(used_vals.begin(), used_vals.end(), v) != used_vals.end())
                for (v = 0; v < nvals; ++v) if (std::find(used_vals.begin(), used_vals.end(), v) == used_vals.end()) break;
            used_vals.push_back(v);
            g.value = v;
            g.hex = t.chance(1, 2);
            c.given.push_back(g);
        }
    }
    c.invalid = t.chance(1, 6) ? 1 + static_cast<int>(t.below(6)) : 0;
    {
        // an invalid value is the only value given for its setting (a higher-ranked valid source would simply override it)
        int inv_setting = (c.invalid == 1 || c.invalid == 2 || c.invalid == 5) ? S_THREADS : c.invalid == 4 ? S_SCHEDULER : c.invalid == 6 ? S_SMALL_STACK : -1;
        if (inv_setting >= 0)
            c.given.erase(std::remove_if(c.given.begin(), c.given.end(), [&](Given const& g) { return g.setting == inv_setting; }), c.given.end());
        // (and a process mask smaller than the default thread count is a different error class)
    }
    int np = static_cast<int>(t.below(3));
    for (int i = 0; i < np; ++i) c.positional.push_back(t.pick({"input.dat", "42", "run", "a=b", "x"}) + std::to_string(i));
    if (t.chance(1, 3))
    {
        int nt = 1 + static_cast<int>(t.below(3));
        for (int i = 0; i < nt; ++i) c.tail.push_back(t.pick({"--pika:threads=9", "tail", "--app=1", "-v", "--pika:bogus"}) + std::string(i ? std::to_string(i) : ""));
    }
    // known finding F7 also shows when the second occurrence sits behind "--": PIKA_COMMANDLINE_OPTIONS=--pika:threads=a plus
    // "-- --pika:threads=9" is re-parsed by the late command line handling ("cannot be specified more than once")
    if (avoid_f7)
    {
        bool co_threads = false;
        for (auto const& g : c.given) co_threads |= g.setting == S_THREADS && g.source == SRC_CMDOPTS;
        if (co_threads)
            for (auto& x : c.tail)
                if (x.rfind("--pika:threads=9", 0) == 0) { x = "tail" + x.substr(16); ++c.avoided; }
    }
    for (int i = 0; i < 24; ++i) c.order.push_back(t.raw());
    return c;
}

static std::string threads_value(int v) { return std::to_string(v + 1); }                       // 1..8
// the symbolic thread counts (this machine: 16 cores with one PU each, so both mean "every PU of the effective mask"); used for the
// sources that accept them (environment, PIKA_COMMANDLINE_OPTIONS, dedicated option) when the generated value is 7 or 8 and the
// spare draw `hex` is set (derived: older replay tapes keep their meaning for numeric values)
static std::string mask_value(int v) { static char const* const m[] = {"0x3", "0xf", "0xff", "0xf0", "0x5555", "0xffff"}; return m[v]; }
static int mask_pus(int v) { static int const n[] = {2, 4, 8, 4, 8, 16}; return n[v]; }
static std::string stack_value(int v, bool hex)
{
    char b[32];
    if (hex) std::snprintf(b, sizeof b, "0x%lx", stack_vals[v]); else std::snprintf(b, sizeof b, "%ld", stack_vals[v]);
    return b;
}
static bool is_keyword_threads(Given const& g) { return g.setting == S_THREADS && g.hex && g.value >= 6 && g.source != SRC_INI; }
static std::string value_text(Given const& g)
{
    switch (g.setting)
    {
    case S_THREADS: return is_keyword_threads(g) ? (g.value == 6 ? "cores" : "all") : threads_value(g.value);
    case S_SCHEDULER: return sched_vals[g.value];
    case S_SMALL_STACK: return stack_value(g.value, g.hex);
    case S_BIND: return bind_vals[g.value];
    case S_PROCESS_MASK: return mask_value(g.value);
    default: return std::to_string(1000 + 2000 * g.value);    // an existing plain ini entry (pika.max_busy_loop_count): unknown keys are rejected by pika
    }
}

static char const* garbage_stack(struct Case const& c);
static std::string describe(tape_t const& tape)
{
    Case c = decode(tape);
    std::ostringstream os;
    os << "{\"given\": [";
    for (std::size_t i = 0; i < c.given.size(); ++i)
        os << (i ? ", " : "") << "\"" << setting_names[c.given[i].setting] << " via " << source_names[c.given[i].source] << " = " << value_text(c.given[i]) << "\"";
    static char const* const inv[] = {"-", "--pika:threads=abc", "--pika:threads=0", "--pika:foo=1 (unknown pika option)", "--pika:scheduler=bogus", "PIKA_THREADS=xyz", "pika.stacks.small_size=12junk"};
    os << "], \"invalid\": \"" << (c.invalid == 6 ? std::string("pika.stacks.small_size=") + garbage_stack(c) : std::string(inv[c.invalid])) << "\", \"positional\": " << c.positional.size() << ", \"tail_after_dashdash\": " << c.tail.size() << "}";
    return os.str();
}

// the probe (fresh exec): entry function reports what the live runtime uses
static int g_entry_argc = 0;
static int entry(int argc, char** argv)
{
    namespace ex = pika::execution::experimental;
    proc::emit_probe("entry", "1");
    g_entry_argc = argc;
    std::string av;
    for (int i = 1; i < argc; ++i) av += std::string(i > 1 ? "\x1f" : "") + argv[i];
    proc::emit_probe("argv", av);
    proc::emit_probe("workers", std::to_string(pika::get_num_worker_threads()));
    proc::emit_probe("sched", pika::resource::get_thread_pool(0).get_scheduler()->get_description());
    auto& cfg = pika::detail::get_runtime().get_config();
    proc::emit_probe("cfg_small", cfg.get_entry("pika.stacks.small_size", "?"));
    proc::emit_probe("cfg_bind", cfg.get_entry("pika.bind", "?"));
    proc::emit_probe("cfg_key", cfg.get_entry("pika.max_busy_loop_count", "?"));
    // what a default task really gets
    std::ptrdiff_t st = 0;
    long used = 0;
    pika::this_thread::experimental::sync_wait(ex::then(ex::schedule(ex::thread_pool_scheduler{}), [&] {
        st = pika::this_thread::get_stack_size();
        // touch 60% of it
        volatile char probe[1];
        char* lo = const_cast<char*>(&probe[0]) - (st * 6) / 10;
        for (char* p = const_cast<char*>(&probe[0]) - 256; p > lo; p -= 1024) *reinterpret_cast<volatile char*>(p) = 1;
        used = (st * 6) / 10;
    }));
    proc::emit_probe("task_stack", std::to_string(st));
    proc::emit_probe("task_stack_touched", std::to_string(used));
    namespace td = pika::threads::detail;
    auto& rp = pika::resource::get_partitioner();
    int bound = 0;
    for (std::size_t i = 0; i < pika::get_num_worker_threads(); ++i)
        if (td::count(rp.get_pu_mask(i)) == 1) ++bound;
    proc::emit_probe("bound_workers", std::to_string(bound));
    pika::finalize();
    return 7;
}
static int probe_main(int argc, char** argv)
{
    int r = pika::init(entry, argc, argv);
    proc::emit_probe("init_result", std::to_string(r));
    return r == 7 ? 0 : 3;
}

// garbage stack size: numeric prefix that would be a usable size + junk, tiny numeric prefix + junk, no number at all
// (variant derived from an existing draw so that older replay tapes keep their meaning)
static char const* garbage_stack(Case const& c)
{
    static char const* const g[] = {"12junk", "0x10000junk", "junk"};
    return g[c.positional.size() % 3];
}

static Outcome run(tape_t const& tape)
{
    Case c = decode(tape);
    std::vector<std::pair<std::string, std::string>> env;
    std::vector<std::string> unset{"PIKA_PROCESS_MASK", "PIKA_THREADS", "PIKA_BIND", "PIKA_COMMANDLINE_OPTIONS", "HWLOC_SYNTHETIC", "PIKA_IGNORE_PROCESS_MASK", "PIKA_SCHEDULER",
        "PIKA_SMALL_STACK_SIZE"};
    std::vector<std::string> pika_args;
    std::string cmdopts;
    // winners
    int win_src[S_COUNT];
    Given win[S_COUNT];
    for (int& w : win_src) w = -1;
    for (Given const& g : c.given)
    {
        std::string v = value_text(g);
        switch (g.source)
        {
        case SRC_ENV:
        {
            static char const* const ev[] = {"PIKA_THREADS", "PIKA_SCHEDULER", "PIKA_SMALL_STACK_SIZE", "PIKA_BIND", "PIKA_PROCESS_MASK", ""};
            env.push_back({ev[g.setting], v});
            break;
        }
        case SRC_CMDOPTS:
            cmdopts += std::string(cmdopts.empty() ? "" : " ") + (g.setting == S_THREADS ? "--pika:threads=" : "--pika:scheduler=") + v;
            break;
        case SRC_INI:
        {
            static char const* const key[] = {"pika.os_threads", "pika.scheduler", "pika.stacks.small_size", "pika.bind", "", "pika.max_busy_loop_count"};
            pika_args.push_back(std::string("--pika:ini=") + key[g.setting] + "=" + v);
            break;
        }
        case SRC_OPT:
        {
            static char const* const opt[] = {"--pika:threads=", "--pika:scheduler=", "", "--pika:bind=", "--pika:process-mask=", ""};
            pika_args.push_back(std::string(opt[g.setting]) + v);
            break;
        }
        }
        if (g.source > win_src[g.setting]) { win_src[g.setting] = g.source; win[g.setting] = g; }
    }
    if (!cmdopts.empty()) env.push_back({"PIKA_COMMANDLINE_OPTIONS", cmdopts});
    switch (c.invalid)
    {
    case 1: pika_args.push_back("--pika:threads=abc"); break;
    case 2: pika_args.push_back("--pika:threads=0"); break;
    case 3: pika_args.push_back("--pika:foo=1"); break;
    case 4: pika_args.push_back("--pika:scheduler=bogus"); break;
    case 5: env.push_back({"PIKA_THREADS", "xyz"}); break;
    case 6: pika_args.push_back(std::string("--pika:ini=pika.stacks.small_size=") + garbage_stack(c)); break;
    default: break;
    }
    // an invalid threads option next to a valid one would be a duplicate: drop the valid dedicated option then
    if (c.invalid == 1 || c.invalid == 2 || c.invalid == 5)
        pika_args.erase(std::remove_if(pika_args.begin(), pika_args.end(), [](std::string const& a) { return a.rfind("--pika:threads=", 0) == 0 && a != "--pika:threads=abc" && a != "--pika:threads=0"; }), pika_args.end());
    if (c.invalid == 4)
        pika_args.erase(std::remove_if(pika_args.begin(), pika_args.end(), [](std::string const& a) { return a.rfind("--pika:scheduler=", 0) == 0 && a != "--pika:scheduler=bogus"; }), pika_args.end());
    // interleave pika options and positional arguments in a generated order
    std::vector<std::string> args;
    {
        std::vector<std::pair<std::uint32_t, std::string>> items;
        std::size_t k = 0;
        for (auto const& a : pika_args) items.push_back({c.order[k++ % c.order.size()], a});
        // positional arguments keep their relative order: sort keys ascending among themselves
        std::vector<std::uint32_t> pk;
        for (std::size_t i = 0; i < c.positional.size(); ++i) pk.push_back(c.order[k++ % c.order.size()]);
        std::sort(pk.begin(), pk.end());
        for (std::size_t i = 0; i < c.positional.size(); ++i) items.push_back({pk[i], c.positional[i]});
        std::stable_sort(items.begin(), items.end(), [](auto const& a, auto const& b) { return a.first < b.first; });
        for (auto& it : items) args.push_back(it.second);
    }
    if (!c.tail.empty())
    {
        args.push_back("--");
        for (auto const& x : c.tail) args.push_back(x);
    }
    proc::Result r = proc::run_exec(env, unset, args, 15);
    Outcome out;
    auto fail = [&](char const* o, std::string m) { if (out.kind == Outcome::PASS) out = Outcome::fail(o, std::move(m)); };
    if (r.timed_out) { out.kind = Outcome::INCONCLUSIVE; out.msg = "probe timed out"; return out; }
    bool entry_ran = r.has("entry");
    std::string cmdline;
    for (auto const& a : args) cmdline += a + " ";
    std::string envs;
    for (auto const& e : env) envs += e.first + "=" + e.second + " ";
    if (c.invalid)
    {
        bool error_signalled = r.signal != 0 || (r.exited && r.code != 0);
        // an uncaught pika exception ends in std::terminate (SIGABRT) = an error report; a memory fault is not "stopping start-up with an error"
        if (r.signal != 0 && r.signal != SIGABRT)
            fail("invalid_input_crashes", "invalid input (" + cmdline + "| " + envs + ") was not rejected: the process died by signal " + std::to_string(r.signal) + " (" + strsignal(r.signal) + ")");
        if (entry_ran) fail("invalid_input_ignored", "invalid input (" + cmdline + "| " + envs + ") but the entry function ran as if nothing was wrong");
        else if (!error_signalled) fail("invalid_input_no_error", "invalid input: entry function did not run but no error was reported (exit 0)");
    }
    else if (win_src[S_THREADS] >= 0 && !is_keyword_threads(win[S_THREADS]) && win_src[S_PROCESS_MASK] >= 0 && win[S_THREADS].value + 1 > mask_pus(win[S_PROCESS_MASK].value))
    {
        // more threads than PUs in the resolved mask: start-up is expected to refuse (C15's clause), nothing to compare here
        out.tags.push_back("class:threads_exceed_mask");
    }
    else
    {
        if (!entry_ran)
        {
            bool dup = r.err.find("cannot be specified more than once") != std::string::npos;
            fail(dup ? "precedence_conflict_terminates" : "valid_config_rejected", "valid configuration did not start (" + cmdline + "| " + envs + "): exit " + std::to_string(r.code) + " signal " + std::to_string(r.signal) + " : " + r.err.substr(r.err.size() > 300 ? r.err.size() - 300 : 0));
        }
        else
        {
            // resolved values the live runtime uses
            if (win_src[S_PROCESS_MASK] >= 0 && win_src[S_THREADS] < 0)
            {
                // thread count defaults to one per core in the mask (no SMT on this machine => PUs)
                int want = mask_pus(win[S_PROCESS_MASK].value);
                if (r.num("workers") != want) fail("process_mask_precedence", "process mask resolved to " + value_text(win[S_PROCESS_MASK]) + " (" + source_names[win_src[S_PROCESS_MASK]] + ") but the runtime uses " + r.get("workers") + " workers (" + cmdline + "| " + envs + ")");
            }
            if (win_src[S_THREADS] >= 0)
            {
                int want = win[S_THREADS].value + 1;
                if (is_keyword_threads(win[S_THREADS])) want = win_src[S_PROCESS_MASK] >= 0 ? mask_pus(win[S_PROCESS_MASK].value) : 16;
                bool fits = win_src[S_PROCESS_MASK] < 0 || want <= mask_pus(win[S_PROCESS_MASK].value);
                if (fits && r.num("workers") != want)
                    fail("threads_precedence", "threads resolved to " + std::to_string(want) + " (" + source_names[win_src[S_THREADS]] + " wins) but the runtime uses " + r.get("workers") + " workers (" + cmdline + "| " + envs + ")");
            }
            if (win_src[S_SCHEDULER] >= 0 && r.get("sched") != sched_desc[win[S_SCHEDULER].value])
                fail("scheduler_precedence", std::string("scheduler resolved to ") + sched_vals[win[S_SCHEDULER].value] + " (" + source_names[win_src[S_SCHEDULER]] + " wins) but the default pool runs " + r.get("sched") + " (" + cmdline + "| " + envs + ")");
            if (win_src[S_SMALL_STACK] >= 0)
            {
                long want = stack_vals[win[S_SMALL_STACK].value];
                if (r.num("task_stack") != want)
                    fail("stack_size_precedence", "small stack size resolved to " + value_text(win[S_SMALL_STACK]) + " (" + source_names[win_src[S_SMALL_STACK]] + " wins) = " + std::to_string(want) +
                            " bytes, but a default task runs on a stack of " + r.get("task_stack") + " bytes; config entry says " + r.get("cfg_small") + " (" + cmdline + "| " + envs + ")");
            }
            if (win_src[S_BIND] >= 0)
            {
                bool none = win[S_BIND].value == 0;
                long long bound = r.num("bound_workers"), nw = r.num("workers");
                if (none && bound == nw && nw > 0 && nw < 16) fail("bind_precedence", "bind resolved to none (" + std::string(source_names[win_src[S_BIND]]) + ") but all workers are pinned (" + cmdline + "| " + envs + ")");
                if (!none && bound != nw) fail("bind_precedence", "bind resolved to " + std::string(bind_vals[win[S_BIND].value]) + " but only " + std::to_string(bound) + " of " + std::to_string(nw) + " workers are pinned (" + cmdline + "| " + envs + ")");
            }
            if (win_src[S_INI_KEY] >= 0 && r.get("cfg_key") != value_text(win[S_INI_KEY])) fail("ini_key", "ini entry pika.max_busy_loop_count is '" + r.get("cfg_key") + "', expected " + value_text(win[S_INI_KEY]));
            // non-pika arguments reach the entry function unchanged and in order
            std::string want;
            bool first = true;
            for (auto const& p : c.positional) { want += std::string(first ? "" : "\x1f") + p; first = false; }
            for (auto const& p : c.tail) { want += std::string(first ? "" : "\x1f") + p; first = false; }
            if (r.get("argv") != want)
            {
                std::string got = r.get("argv"), w2 = want;
                for (auto& ch : got) if (ch == '\x1f') ch = ' ';
                for (auto& ch : w2) if (ch == '\x1f') ch = ' ';
                fail("application_args", "entry function saw arguments [" + got + "], expected [" + w2 + "] (" + cmdline + ")");
            }
            if (r.num("init_result") != 7) fail("init_result", "init returned " + r.get("init_result") + " instead of the entry function's 7");
        }
    }
    int multi = 0;
    std::map<int, int> per;
    for (auto const& g : c.given) ++per[g.setting];
    for (auto const& kv : per) if (kv.second >= 2) ++multi;
    out.nontrivial = multi > 0 || c.invalid != 0;
    for (auto const& kv : per) out.tags.push_back(std::string("setting:") + setting_names[kv.first] + "/sources" + std::to_string(kv.second));
    if (c.invalid) out.tags.push_back("class:invalid_input");
    if (!c.tail.empty()) out.tags.push_back("has:dashdash_tail");
    out.counters["avoided"] = c.avoided;
    return out;
}

int main(int argc, char** argv)
{
    if (argc >= 2 && std::string(argv[1]) == "--probe")
    {
        argv[1] = argv[0];
        return probe_main(argc - 1, argv + 1);
    }
    Target T;
    T.property = "C16";
    T.engine = "E-proc";
    T.forked = true;
    T.tape_scale = 2;
    T.child_timeout_s = 60;
    T.describe = describe;
    T.run = run;
    T.signature = [](tape_t const&, Outcome const& o) { return std::string("{\"oracle\": ") + jstr(o.oracle) + "}"; };
    return target_main(argc, argv, T);
}
