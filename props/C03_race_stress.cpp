// C03 (races, real threads) — split / split(ensure_started) / split_tuple / ensure_started / when_all / when_all_vector
// with consumers that start at (nearly) the same instant on different OS threads while the predecessor completes on
// yet another one.   Engine: E-stress (plain std::threads, no baton).
// The E-vt target interleaves the hand-off protocols at hook granularity; a check-then-act window that lies inside what
// is one atomic read-modify-write in the source (first-start election, predecessors_remaining) has no decision point in
// it and is only reachable by really running the threads.  Each generated case = adaptor x consumer threads x who
// completes the predecessor(s) x start skews; it is repeated for `rounds` rounds with the skews swept.
// Oracle per round: every predecessor operation is started exactly once, every started consumer receives exactly one
// completion signal and it is the one the predecessor(s) produced; a consumer without a signal 5 s after everything
// completed = lost completion.
#include "core.hpp"

#include <pika/execution.hpp>

#include <atomic>
#include <chrono>
#include <exception>
#include <memory>
#include <optional>
#include <thread>
#include <tuple>
#include <vector>

using namespace vf;
namespace ex = pika::execution::experimental;

struct TestErr { int e; };

struct LeafSlot
{
    std::atomic<int> started{0}, completed{0};
    std::atomic<void*> op{nullptr};
    void (*complete_fn)(void*) = nullptr;
};
struct RtLeaf
{
    using is_sender = void;
    template <template <typename...> class Tuple, template <typename...> class Variant>
    using value_types = Variant<Tuple<int>>;
    template <template <typename...> class Variant>
    using error_types = Variant<std::exception_ptr>;
    static constexpr bool sends_done = true;
    using completion_signatures = ex::completion_signatures<ex::set_value_t(int), ex::set_error_t(std::exception_ptr), ex::set_stopped_t()>;

    LeafSlot* slot;
    int channel, val, err;
    bool inline_complete;

    template <typename R>
    struct op
    {
        std::decay_t<R> r;
        LeafSlot* slot;
        int channel, val, err;
        bool inline_complete;
        op(R&& rr, RtLeaf const& s) : r(std::forward<R>(rr)), slot(s.slot), channel(s.channel), val(s.val), err(s.err), inline_complete(s.inline_complete) {}
        op(op&&) = delete;
        void complete() noexcept
        {
            if (slot->completed.fetch_add(1) != 0) return;
            if (channel == 0) ex::set_value(std::move(r), int(val));
            else if (channel == 1) ex::set_error(std::move(r), std::make_exception_ptr(TestErr{err}));
            else ex::set_stopped(std::move(r));
        }
        void start() & noexcept
        {
            // a second start of the same operation state is recorded, not acted upon (the report should be the count, not a crash)
            if (slot->started.fetch_add(1) != 0) return;
            if (inline_complete) { complete(); return; }
            slot->complete_fn = [](void* p) { static_cast<op*>(p)->complete(); };
            slot->op.store(this, std::memory_order_release);
        }
    };
    template <typename R>
    op<R> connect(R&& r) const& { return op<R>(std::forward<R>(r), *this); }
    template <typename R>
    op<R> connect(R&& r) && { return op<R>(std::forward<R>(r), *this); }
};

struct Got
{
    std::atomic<int> signals{0};
    int kind = -1, v = 0;
};
struct Recv
{
    using is_receiver = void;
    Got* g;
    template <typename... Ts>
    void set_value(Ts&&... ts) && noexcept
    {
        int acc = 0;
        auto add = [&](auto const& x) {
            if constexpr (std::is_same_v<std::decay_t<decltype(x)>, int>) acc = acc * 31 + x;
            else for (int y : x) acc = acc * 31 + y;
        };
        (add(ts), ...);
        if (g->signals.load() == 0) { g->kind = 0; g->v = acc; }
        g->signals.fetch_add(1, std::memory_order_release);
    }
    void set_error(std::exception_ptr ep) && noexcept
    {
        int v = -3;
        if (ep)
        {
            try { std::rethrow_exception(ep); }
            catch (TestErr const& t) { v = t.e; }
            catch (...) { v = -2; }
        }
        if (g->signals.load() == 0) { g->kind = 1; g->v = v; }
        g->signals.fetch_add(1, std::memory_order_release);
    }
    void set_stopped() && noexcept
    {
        if (g->signals.load() == 0) { g->kind = 2; g->v = 0; }
        g->signals.fetch_add(1, std::memory_order_release);
    }
};

enum Adaptor { A_SPLIT, A_ENSURE_STARTED_SPLIT, A_SPLIT_TUPLE, A_ENSURE_STARTED, A_WHEN_ALL, A_WHEN_ALL_VECTOR, A_COUNT };
static char const* const adaptor_names[] = {"split", "split(ensure_started)", "split_tuple", "ensure_started", "when_all", "when_all_vector"};

struct Case
{
    int adaptor = 0;
    int nc = 2;                 // consumers, each on its own OS thread
    int nl = 1;                 // predecessors (when_all*: 2..3, each completed by its own thread)
    std::vector<int> channel;   // per predecessor
    bool inline_complete = false;
    bool connect_in_thread = false;
    int rounds = 300;
    int span = 64;              // the start skews are swept over [0, span) spin iterations
    std::vector<int> skew0, step;    // per actor (consumers, then completers)
};

static Case decode(tape_t const& tape)
{
    Tape t(tape);
    Case c;
    c.adaptor = t.weighted({4, 2, 2, 1, 2, 2});
    bool multi = c.adaptor == A_WHEN_ALL || c.adaptor == A_WHEN_ALL_VECTOR;
    c.nl = multi ? 2 + static_cast<int>(t.below(2)) : 1;
    c.nc = (c.adaptor == A_SPLIT || c.adaptor == A_ENSURE_STARTED_SPLIT) ? 2 + static_cast<int>(t.below(3)) : c.adaptor == A_SPLIT_TUPLE ? 2 : 1;
    for (int i = 0; i < c.nl; ++i) c.channel.push_back(t.weighted({5, 2, 2}));
    c.inline_complete = !multi && t.chance(1, 4);
    c.connect_in_thread = t.chance(1, 3);
    c.rounds = t.pick({300, 1000, 3000});
    c.span = t.pick({64, 8, 512, 4096});
    for (int i = 0; i < c.nc + c.nl; ++i)
    {
        c.skew0.push_back(static_cast<int>(t.below(static_cast<std::uint32_t>(c.span))));
        c.step.push_back(t.pick({1, 0, 3, 7}));
    }
    return c;
}

static std::string describe(tape_t const& tape)
{
    Case c = decode(tape);
    std::ostringstream os;
    os << "{\"adaptor\": \"" << adaptor_names[c.adaptor] << "\", \"consumer_threads\": " << c.nc << ", \"predecessors\": [";
    for (int i = 0; i < c.nl; ++i) os << (i ? ", " : "") << "\"" << (c.channel[static_cast<std::size_t>(i)] == 0 ? "value" : c.channel[static_cast<std::size_t>(i)] == 1 ? "error" : "stopped") << "\"";
    os << "], \"completion\": \"" << (c.inline_complete ? "inline in start" : "by a separate thread per predecessor") << "\", \"connect\": \"" << (c.connect_in_thread ? "in the consumer thread" : "beforehand")
       << "\", \"rounds\": " << c.rounds << ", \"skew_span\": " << c.span << ", \"skews\": [";
    for (std::size_t i = 0; i < c.skew0.size(); ++i) os << (i ? ", " : "") << "\"" << c.skew0[i] << "+" << c.step[i] << "r\"";
    os << "]}";
    return os.str();
}

using any_t = ex::unique_any_sender<int>;

static inline void spin(int n)
{
    for (volatile int k = 0; k < n; k = k + 1) {}
}

static Outcome run(tape_t const& tape)
{
    Case c = decode(tape);
    std::size_t nl = static_cast<std::size_t>(c.nl), nc = static_cast<std::size_t>(c.nc);
    std::string fail, oracle;
    auto set_fail = [&](char const* o, std::string m) { if (fail.empty()) { oracle = o; fail = std::move(m); } };
    long long rounds_done = 0, overlapped_starts = 0;

    for (int round = 0; round < c.rounds && fail.empty(); ++round)
    {
        std::vector<std::unique_ptr<LeafSlot>> slots;
        for (std::size_t i = 0; i < nl; ++i) slots.push_back(std::make_unique<LeafSlot>());
        std::vector<std::unique_ptr<Got>> got;
        for (std::size_t k = 0; k < nc; ++k) got.push_back(std::make_unique<Got>());
        auto leaf = [&](std::size_t i) { return RtLeaf{slots[i].get(), c.channel[i], 100 + static_cast<int>(i), 7 + static_cast<int>(i), c.inline_complete}; };
        auto leaf_res = [&](std::size_t i) { return std::make_pair(c.channel[i], c.channel[i] == 0 ? 100 + static_cast<int>(i) : c.channel[i] == 1 ? 7 + static_cast<int>(i) : 0); };
        std::vector<std::optional<any_t>> senders(nc);
        std::vector<std::pair<int, int>> admissible;
        switch (c.adaptor)
        {
        case A_SPLIT:
        {
            auto sp = ex::split(leaf(0));
            for (std::size_t k = 0; k < nc; ++k) senders[k].emplace(sp);
            admissible.push_back(leaf_res(0));
            break;
        }
        case A_ENSURE_STARTED_SPLIT:
        {
            auto sp = ex::split(ex::ensure_started(leaf(0)));
            for (std::size_t k = 0; k < nc; ++k) senders[k].emplace(sp);
            admissible.push_back(leaf_res(0));
            break;
        }
        case A_SPLIT_TUPLE:
        {
            auto [a, b] = ex::split_tuple(ex::then(leaf(0), [](int v) { return std::make_tuple(v, v); }));
            senders[0].emplace(std::move(a));
            senders[1].emplace(std::move(b));
            admissible.push_back(leaf_res(0));
            break;
        }
        case A_ENSURE_STARTED:
        {
            senders[0].emplace(ex::ensure_started(leaf(0)));
            admissible.push_back(leaf_res(0));
            break;
        }
        case A_WHEN_ALL:
        {
            if (nl == 2) senders[0].emplace(ex::then(ex::when_all(leaf(0), leaf(1)), [](int a, int b) { return a * 31 + b; }));
            else senders[0].emplace(ex::then(ex::when_all(leaf(0), leaf(1), leaf(2)), [](int a, int b, int cc) { return (a * 31 + b) * 31 + cc; }));
            break;
        }
        default:
        {
            std::vector<RtLeaf> v;
            for (std::size_t i = 0; i < nl; ++i) v.push_back(leaf(i));
            senders[0].emplace(ex::then(ex::when_all_vector(std::move(v)), [](std::vector<int> xs) { int a = 0; for (int x : xs) a = a * 31 + x; return a; }));
            break;
        }
        }
        if (c.adaptor == A_WHEN_ALL || c.adaptor == A_WHEN_ALL_VECTOR)
        {
            bool all_value = true;
            for (std::size_t i = 0; i < nl; ++i)
                if (c.channel[i] != 0) { all_value = false; admissible.push_back(leaf_res(i)); }
            if (all_value)
            {
                int a = 0;
                for (std::size_t i = 0; i < nl; ++i) a = a * 31 + 100 + static_cast<int>(i);
                admissible.push_back({0, a});
            }
        }
        using OS = decltype(ex::connect(std::move(*senders[0]), Recv{nullptr}));
        std::vector<std::unique_ptr<OS>> oss(nc);
        if (!c.connect_in_thread)
            for (std::size_t k = 0; k < nc; ++k) { oss[k].reset(new OS(ex::connect(std::move(*senders[k]), Recv{got[k].get()}))); senders[k].reset(); }

        std::size_t actors = nc + (c.inline_complete ? 0 : nl);
        std::atomic<std::size_t> arrived{0};
        std::atomic<bool> go{false}, abandon{false};
        std::atomic<int> in_start{0}, saw_overlap{0};
        std::atomic<std::size_t> finished{0};
        auto skew = [&](std::size_t a) { return (c.skew0[a] + c.step[a] * round) % c.span; };
        std::vector<std::thread> th;
        for (std::size_t k = 0; k < nc; ++k)
            th.emplace_back([&, k] {
                arrived.fetch_add(1);
                while (!go.load(std::memory_order_acquire)) {}
                spin(skew(k));
                if (c.connect_in_thread) { oss[k].reset(new OS(ex::connect(std::move(*senders[k]), Recv{got[k].get()}))); senders[k].reset(); }
                if (in_start.fetch_add(1) > 0) saw_overlap.store(1);
                ex::start(*oss[k]);
                in_start.fetch_sub(1);
                finished.fetch_add(1);
            });
        if (!c.inline_complete)
            for (std::size_t i = 0; i < nl; ++i)
                th.emplace_back([&, i] {
                    arrived.fetch_add(1);
                    while (!go.load(std::memory_order_acquire)) {}
                    void* p = nullptr;
                    while (!(p = slots[i]->op.load(std::memory_order_acquire)) && !abandon.load()) {}
                    if (p)
                    {
                        spin(skew(nc + i));
                        if (in_start.load() > 0) saw_overlap.store(1);
                        slots[i]->complete_fn(p);
                    }
                    finished.fetch_add(1);
                });
        while (arrived.load() != actors) {}
        go.store(true, std::memory_order_release);
        // all consumers signalled?
        auto t0 = std::chrono::steady_clock::now();
        bool lost = false;
        for (;;)
        {
            bool all = true;
            for (std::size_t k = 0; k < nc; ++k) all &= got[k]->signals.load(std::memory_order_acquire) > 0;
            if (all) break;
            if (std::chrono::steady_clock::now() - t0 > std::chrono::seconds(5))
            {
                // only a loss if every predecessor has long completed
                bool preds_done = true;
                for (std::size_t i = 0; i < nl; ++i) preds_done &= slots[i]->completed.load() > 0;
                if (preds_done || std::chrono::steady_clock::now() - t0 > std::chrono::seconds(20)) { lost = true; break; }
            }
            std::this_thread::yield();
        }
        abandon.store(true);
        if (lost)
        {
            // an actor may be stuck inside the adaptor for good: do not wait for it (the case process ends right after the report)
            auto t1 = std::chrono::steady_clock::now();
            while (finished.load() != actors && std::chrono::steady_clock::now() - t1 < std::chrono::seconds(1)) std::this_thread::yield();
        }
        if (!lost || finished.load() == actors) for (auto& x : th) x.join();
        else for (auto& x : th) x.detach();
        if (saw_overlap.load()) ++overlapped_starts;
        ++rounds_done;
        std::string where = "round " + std::to_string(round) + " (" + adaptor_names[c.adaptor] + "): ";
        for (std::size_t i = 0; i < nl; ++i)
            if (slots[i]->started.load() > 1) set_fail("predecessor_started_twice", where + "the operation state of predecessor " + std::to_string(i) + " was started " + std::to_string(slots[i]->started.load()) + " times");
        if (lost)
        {
            std::string d;
            for (std::size_t i = 0; i < nl; ++i) d += "predecessor" + std::to_string(i) + " started=" + std::to_string(slots[i]->started.load()) + " completed=" + std::to_string(slots[i]->completed.load()) + "; ";
            for (std::size_t k = 0; k < nc; ++k) d += "consumer" + std::to_string(k) + " signals=" + std::to_string(got[k]->signals.load()) + "; ";
            set_fail("lost_completion", where + "a started consumer never received a completion signal: " + d);
            // the operation states may still be referenced by whoever is stuck: leak them
            for (auto& o : oss) (void) o.release();
            break;
        }
        // give a second (wrong) signal a moment to show up before the operation states go away
        for (std::size_t k = 0; k < nc && fail.empty(); ++k)
        {
            if (got[k]->signals.load() != 1) { set_fail("signal_count", where + "consumer " + std::to_string(k) + " received " + std::to_string(got[k]->signals.load()) + " completion signals"); break; }
            bool ok = false;
            for (auto const& a : admissible) ok |= a.first == got[k]->kind && a.second == got[k]->v;
            if (!ok)
            {
                std::string adm;
                for (auto const& a : admissible) adm += (a.first == 0 ? "value " : a.first == 1 ? "error#" : "stopped ") + std::to_string(a.second) + "; ";
                set_fail("wrong_completion", where + "consumer " + std::to_string(k) + " received " + (got[k]->kind == 0 ? "value " : got[k]->kind == 1 ? "error#" : "stopped ") + std::to_string(got[k]->v) + " but the admissible completions are {" + adm + "}");
            }
        }
        oss.clear();
    }
    Outcome out;
    if (!fail.empty()) out = Outcome::fail(oracle, fail);
    out.counters["rounds"] = rounds_done;
    out.counters["rounds_with_overlapping_start_or_completion"] = overlapped_starts;
    out.nontrivial = overlapped_starts > 0;
    out.tags.push_back(std::string("adaptor:") + adaptor_names[c.adaptor]);
    if (overlapped_starts) out.tags.push_back("saw:two_actors_inside_the_adaptor_at_once");
    return out;
}

int main(int argc, char** argv)
{
    Target T;
    T.property = "C03";
    T.engine = "E-stress";
    T.forked = true;
    T.tape_scale = 1;
    T.child_timeout_s = 90;
    T.describe = describe;
    T.run = run;
    T.signature = [](tape_t const& tape, Outcome const& o) {
        Case c = decode(tape);
        return std::string("{\"oracle\": ") + jstr(o.oracle) + ", \"adaptor\": " + jstr(adaptor_names[c.adaptor]) + ", \"threads\": \"real\"}";
    };
    return target_main(argc, argv, T);
}
