// C17 — concurrent queues return every element exactly once.   Engine: E-vt (+ sequential model).
// Containers: contiguous_index_queue, lock-free deque, and the scheduler back-ends
// lockfree_fifo / lockfree_lifo / abp_fifo / abp_lifo.
#include "vt.hpp"

#include <pika/concurrency/deque.hpp>
#include <pika/concurrency/detail/contiguous_index_queue.hpp>
#include <pika/schedulers/lockfree_queue_backends.hpp>

#include <deque>
#include <map>
#include <optional>

using namespace vf;

enum Kind { K_INDEX, K_DEQUE, K_FIFO, K_LIFO, K_ABP_FIFO, K_ABP_LIFO, K_COUNT };
static char const* const kind_names[] = {"contiguous_index_queue", "deque", "lockfree_fifo", "lockfree_lifo", "abp_fifo", "abp_lifo"};

// op codes: index queue: 0 pop_left, 1 pop_right;  deque: 0 push_left 1 push_right 2 pop_left 3 pop_right;
// back-ends: 0 push(other_end=false) 1 push(other_end=true) 2 pop(steal=false) 3 pop(steal=true)
struct Case
{
    int kind = 0;
    int nth = 1;                              // 1 => sequential model check
    std::uint32_t first = 0, count = 0;       // index queue range
    int prefill = 0;
    std::vector<std::vector<int>> ops;
};

static Case decode(Tape& t)
{
    Case c;
    c.kind = t.weighted({4, 4, 1, 2, 2, 2});
    c.nth = t.weighted({2, 4, 3, 1}) + 1;
    if (c.kind == K_INDEX)
    {
        c.count = static_cast<std::uint32_t>(t.below(12));
        c.first = t.pick({0u, 0u, 5u, 0xfffffff0u, 0x7ffffffau});
        if (c.first > 0xffffffffu - c.count) c.first = 0xffffffffu - c.count;
    }
    else c.prefill = static_cast<int>(t.below(4));
    c.ops.resize(static_cast<std::size_t>(c.nth));
    for (int i = 0; i < c.nth; ++i)
    {
        int n = 1 + static_cast<int>(t.below(6));
        for (int k = 0; k < n; ++k)
            c.ops[static_cast<std::size_t>(i)].push_back(c.kind == K_INDEX ? static_cast<int>(t.below(2)) : static_cast<int>(t.below(4)));
    }
    return c;
}

static std::string describe(tape_t const& tape)
{
    Tape t(tape);
    Case c = decode(t);
    std::ostringstream os;
    os << "{\"container\": \"" << kind_names[c.kind] << "\", \"threads\": " << c.nth;
    if (c.kind == K_INDEX) os << ", \"range\": \"[" << c.first << ", " << static_cast<std::uint64_t>(c.first) + c.count << ")\"";
    else os << ", \"prefill\": " << c.prefill;
    os << ", \"scripts\": [";
    static char const* const iq[] = {"pop_left", "pop_right"};
    static char const* const dq[] = {"push_left", "push_right", "pop_left", "pop_right"};
    static char const* const be[] = {"push", "push(other_end)", "pop(own)", "pop(steal)"};
    for (int i = 0; i < c.nth; ++i)
    {
        os << (i ? ", " : "") << "\"";
        for (int o : c.ops[static_cast<std::size_t>(i)]) os << (c.kind == K_INDEX ? iq[o] : c.kind == K_DEQUE ? dq[o] : be[o]) << " ";
        os << "\"";
    }
    os << "], \"schedule_tape_from\": " << t.pos << "}";
    return os.str();
}

struct Ledger
{
    std::map<std::uint64_t, int> pushed, popped;
    std::string fail, oracle;
    void set_fail(char const* o, std::string m)
    {
        if (fail.empty()) { oracle = o; fail = std::move(m); }
    }
    void push(std::uint64_t v) { ++pushed[v]; }
    void pop(std::uint64_t v)
    {
        if (!pushed.count(v)) set_fail("element_invented", "popped value " + std::to_string(v) + " that was never put in");
        else if (++popped[v] > 1) set_fail("element_twice", "value " + std::to_string(v) + " was returned to two consumers");
    }
    void final_check(std::size_t remaining_drained)
    {
        (void) remaining_drained;
        for (auto const& kv : pushed)
            if (!popped.count(kv.first)) { set_fail("element_lost", "value " + std::to_string(kv.first) + " was put in but never came out, although the container was drained after all producers finished"); return; }
    }
};

static Outcome finish(vt::Sched& s, Ledger& L, Case const& c, long long conflicts)
{
    Outcome out;
    if (!L.fail.empty()) out = Outcome::fail(L.oracle, L.fail);
    out.counters["decisions"] = s.decisions;
    out.counters["switches"] = s.switches;
    out.nontrivial = c.nth >= 2 ? s.switches > c.nth : true;
    (void) conflicts;
    out.tags.push_back(std::string("container:") + kind_names[c.kind]);
    out.tags.push_back(c.nth == 1 ? "mode:sequential_model" : "mode:concurrent");
    return out;
}

static Outcome run_index(Case const& c, Tape& t)
{
    vt::Sched s;
    Ledger L;
    pika::concurrency::detail::contiguous_index_queue<std::uint32_t> q(c.first, c.first + c.count);
    for (std::uint32_t k = 0; k < c.count; ++k) L.push(static_cast<std::uint64_t>(c.first) + k);
    // sequential model: ascending from the left, descending from the right
    std::uint64_t lo = c.first, hi = static_cast<std::uint64_t>(c.first) + c.count;
    for (int i = 0; i < c.nth; ++i)
    {
        s.add([&, i] {
            for (int o : c.ops[static_cast<std::size_t>(i)])
            {
                auto r = o == 0 ? q.pop_left() : q.pop_right();
                if (r) L.pop(*r);
                if (c.nth == 1)
                {
                    if (lo < hi)
                    {
                        std::uint64_t expect = o == 0 ? lo++ : --hi;
                        if (!r) L.set_fail("pop_failed_nonempty", "pop on a non-empty quiescent index queue returned nothing");
                        else if (*r != expect) L.set_fail("end_order", std::string(o == 0 ? "pop_left" : "pop_right") + " returned " + std::to_string(*r) + ", expected " + std::to_string(expect));
                    }
                    else if (r) L.set_fail("element_invented", "pop on an empty index queue returned " + std::to_string(*r));
                }
            }
        });
    }
    s.run(t);
    // drain
    std::size_t drained = 0;
    while (auto r = q.pop_left()) { L.pop(*r); if (++drained > 100) break; }
    if (!q.empty()) L.set_fail("drain", "index queue not empty after draining");
    L.final_check(drained);
    return finish(s, L, c, 0);
}

enum MOp { PF, PB, QF, QB };
struct Generic
{
    std::function<bool(std::uint64_t)> push[2];
    std::function<bool(std::uint64_t&)> pop[2];
    MOp model[4];    // reference-deque meaning of op codes 0..3 in single-threaded use
};

static Outcome run_generic(Case const& c, Tape& t, Generic& G)
{
    vt::Sched s;
    Ledger L;
    std::deque<std::uint64_t> ref;
    std::uint64_t next = 1;
    auto model_push = [&](int o, std::uint64_t v) { if (G.model[o] == PF) ref.push_front(v); else ref.push_back(v); };
    for (int i = 0; i < c.nth; ++i)
    {
        s.add([&, i] {
            int seq = 0;
            if (i == 0)
            {
                // prefill from logical thread 0 itself (the FIFO back-end is FIFO per producer thread)
                for (int k = 0; k < c.prefill; ++k)
                {
                    std::uint64_t v = next++;
                    L.push(v);
                    G.push[1](v);
                    model_push(1, v);
                }
            }
            for (int o : c.ops[static_cast<std::size_t>(i)])
            {
                if (o < 2)
                {
                    std::uint64_t v = 1000ull * static_cast<std::uint64_t>(i + 1) + static_cast<std::uint64_t>(++seq);
                    L.push(v);
                    if (!G.push[o](v)) L.set_fail("push_failed", "push returned false");
                    if (c.nth == 1) model_push(o, v);
                }
                else
                {
                    std::uint64_t v = 0;
                    bool ok = G.pop[o - 2](v);
                    if (ok) L.pop(v);
                    if (c.nth == 1)
                    {
                        if (ref.empty()) { if (ok) L.set_fail("element_invented", "pop on an empty container returned " + std::to_string(v)); }
                        else
                        {
                            std::uint64_t expect;
                            if (G.model[o] == QF) { expect = ref.front(); ref.pop_front(); }
                            else { expect = ref.back(); ref.pop_back(); }
                            if (!ok) L.set_fail("pop_failed_nonempty", "pop on a non-empty quiescent container failed");
                            else if (v != expect) L.set_fail("end_order", "pop returned " + std::to_string(v) + ", the reference model of the stated end order expects " + std::to_string(expect));
                        }
                    }
                }
            }
        });
    }
    s.run(t);
    std::size_t drained = 0;
    for (;;)
    {
        std::uint64_t v = 0;
        if (!G.pop[0](v) && !G.pop[1](v)) break;
        L.pop(v);
        if (++drained > 1000) { L.set_fail("drain", "drain does not terminate"); break; }
    }
    L.final_check(drained);
    return finish(s, L, c, 0);
}

static Outcome run(tape_t const& tape)
{
    Tape t(tape);
    Case c = decode(t);
    vt::install_vt_hook();
    using V = std::uint64_t;
    namespace td = pika::threads::detail;
    Generic G;
    switch (c.kind)
    {
    case K_INDEX: return run_index(c, t);
    case K_DEQUE:
    {
        pika::concurrency::detail::deque<V> q(2);    // tiny freelist: nodes are recycled early (ABA tags matter)
        G.push[0] = [&](V v) { return q.push_left(v); };
        G.push[1] = [&](V v) { return q.push_right(v); };
        G.pop[0] = [&](V& v) { return q.pop_left(v); };
        G.pop[1] = [&](V& v) { return q.pop_right(v); };
        MOp m[4] = {PF, PB, QF, QB};
        std::copy(m, m + 4, G.model);
        return run_generic(c, t, G);
    }
    case K_FIFO:
    {
        td::lockfree_fifo_backend<V> q(4);
        G.push[0] = [&](V v) { return q.push(v, false); };
        G.push[1] = [&](V v) { return q.push(v, true); };
        G.pop[0] = [&](V& v) { return q.pop(v, false); };
        G.pop[1] = [&](V& v) { return q.pop(v, true); };
        MOp m[4] = {PB, PB, QF, QF};    // FIFO for a single producer
        std::copy(m, m + 4, G.model);
        return run_generic(c, t, G);
    }
    case K_LIFO:
    {
        td::lockfree_lifo_backend<V> q(2);
        G.push[0] = [&](V v) { return q.push(v, false); };
        G.push[1] = [&](V v) { return q.push(v, true); };
        G.pop[0] = [&](V& v) { return q.pop(v, false); };
        G.pop[1] = [&](V& v) { return q.pop(v, true); };
        MOp m[4] = {PF, PB, QF, QF};    // push -> left end, push(other_end) -> right end, every pop takes the left end
        std::copy(m, m + 4, G.model);
        return run_generic(c, t, G);
    }
    case K_ABP_FIFO:
    {
        td::lockfree_abp_fifo_backend<V> q(2);
        G.push[0] = [&](V v) { return q.push(v, false); };
        G.push[1] = [&](V v) { return q.push(v, true); };
        G.pop[0] = [&](V& v) { return q.pop(v, false); };
        G.pop[1] = [&](V& v) { return q.pop(v, true); };
        MOp m[4] = {PF, PF, QB, QF};    // pushes at the left; owner pops the right end (oldest), thieves the left end
        std::copy(m, m + 4, G.model);
        return run_generic(c, t, G);
    }
    default:
    {
        td::lockfree_abp_lifo_backend<V> q(2);
        G.push[0] = [&](V v) { return q.push(v, false); };
        G.push[1] = [&](V v) { return q.push(v, true); };
        G.pop[0] = [&](V& v) { return q.pop(v, false); };
        G.pop[1] = [&](V& v) { return q.pop(v, true); };
        MOp m[4] = {PF, PB, QF, QB};    // owner pops the left end (newest), thieves the right end
        std::copy(m, m + 4, G.model);
        return run_generic(c, t, G);
    }
    }
}

int main(int argc, char** argv)
{
    Target T;
    T.property = "C17";
    T.engine = "E-vt";
    T.forked = true;
    T.tape_scale = 3;
    T.child_timeout_s = 30;
    T.describe = describe;
    T.run = run;
    T.signature = [](tape_t const& tape, Outcome const& o) {
        Tape t(tape);
        Case c = decode(t);
        return std::string("{\"oracle\": ") + jstr(o.oracle) + ", \"container\": " + jstr(kind_names[c.kind]) + "}";
    };
    return target_main(argc, argv, T);
}
