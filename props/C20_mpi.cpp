// C20 — MPI requests complete their sender exactly once, after the transfer.   Engine: E-rt (mpi flavour,
// singleton MPI, self-addressed traffic).  One child process = one MPI_Init..MPI_Finalize with a batch of
// generated programs, each with its own runtime incarnation and completion mode.
#include "rt.hpp"

#include <pika/execution.hpp>
#include <pika/mpi.hpp>

#include <mpi.h>

#include <optional>

using namespace vf;
using namespace vf::rt;
namespace mpi = pika::mpi::experimental;

static long const sizes[] = {0, 8, 1000, 70000, 1 << 20};

struct Pair
{
    int size_idx = 1;
    bool recv_first = true;
};
struct Prog
{
    int mode = 30;
    int workers = 2;
    bool pool = false;
    // how the dedicated polling pool is asked for: 0 = --pika:mpi-enable-pool (pika decides; on a single rank it decides against and
    // polls on the default pool), 1 = mpi::detail::create_pool(rp, "", mode_force_create) from the resource partitioner callback (what
    // pika itself does on several ranks, and what its pool_creation test does), 2 = a pool the program creates itself and names in
    // enable_polling(.., name).  With 1 and 2 and a completion mode without the inline-request bit pika::mpi runs its single threaded
    // (lock free) polling path
    int pool_kind = 0;
    int polling_size = 8;
    std::vector<Pair> pairs;
    int send_stride = 1;       // sends are issued in a scattered order
    int scopes = 1;            // 1 or 2 sequential enable_polling scopes
    bool wait_in_flight = true;
    // burst flavour: a few tasks post hundreds..thousands of small requests each without yielding in between, so that
    // requests pile up between two drains of the polling queues (their capacity limits become reachable)
    bool burst = false;
    int posters = 1;
    // with a dedicated MPI pool and two polling scopes: the second scope polls on the default pool instead (enable_polling(.., "default")):
    // polling is switched off and on again in a balanced way, with a different pool configuration
    bool second_scope_on_default_pool = false;
};
struct Case
{
    std::vector<Prog> progs;
};

static Case decode(tape_t const& tape)
{
    Tape t(tape);
    Case c;
    int np = 1 + static_cast<int>(t.below(4));
    for (int i = 0; i < np; ++i)
    {
        Prog p;
        p.mode = static_cast<int>(t.below(32));
        if (t.chance(1, 4)) p.mode = 30;
        p.workers = 1 + static_cast<int>(t.below(6));
        p.pool = t.chance(1, 4);
        p.polling_size = t.pick({8, 1, 4, 32});
        int k = t.weighted({3, 3, 2, 1}) == 3 ? 33 + static_cast<int>(t.below(40)) : 1 + static_cast<int>(t.below(24));
        for (int j = 0; j < k; ++j)
        {
            Pair pr;
            pr.size_idx = t.weighted({1, 3, 3, 2, 1});
            pr.recv_first = !t.chance(1, 4);
            p.pairs.push_back(pr);
        }
        p.send_stride = t.pick({1, 3, 7, 37});
        p.scopes = 1 + static_cast<int>(t.below(2));
        p.wait_in_flight = t.chance(3, 4);
        p.burst = t.chance(1, 5);
        // (yield_while / suspend_resume block the task that starts the operation until the request completed: a task that posts
        // a receive before the matching send would wait for itself; bursts are for the non-blocking completion methods)
        if (p.burst && ((p.mode >> 3) & 3) < 2) p.mode |= 0x18;
        if (p.burst)
        {
            int k2 = t.pick({400, 1500, 3000});
            p.pairs.clear();
            for (int j = 0; j < k2; ++j) p.pairs.push_back(Pair{1, true});
            p.posters = 1 + static_cast<int>(t.below(static_cast<std::uint32_t>(p.workers)));
        }
        p.second_scope_on_default_pool = p.pool && p.scopes == 2 && t.chance(1, 2);
        if (p.pool)
        {
            p.pool_kind = t.weighted({1, 4, 2});
            if (p.pool_kind != 0) p.workers = std::max(p.workers, 2);    // the pool takes one processing unit for itself
        }
        c.progs.push_back(std::move(p));
    }
    return c;
}

static char const* method_name(int mode)
{
    static char const* const n[] = {"yield_while", "suspend_resume", "new_task", "continuation"};
    return n[(mode >> 3) & 3];
}

static std::string describe(tape_t const& tape)
{
    Case c = decode(tape);
    std::ostringstream os;
    os << "{\"programs\": [";
    for (std::size_t i = 0; i < c.progs.size(); ++i)
    {
        auto const& p = c.progs[i];
        long big = 0;
        for (auto const& pr : p.pairs) big = std::max(big, sizes[pr.size_idx]);
        os << (i ? ", " : "") << "{\"mode\": " << p.mode << ", \"method\": \"" << method_name(p.mode) << "\", \"workers\": " << p.workers << ", \"mpi_pool\": \"" << (!p.pool ? "none" : p.pool_kind == 0 ? "--pika:mpi-enable-pool (pika decides)" : p.pool_kind == 1 ? "create_pool(force_create)" : "own pool named in enable_polling") << "\""
           << ", \"polling_size\": " << p.polling_size << ", \"pairs\": " << p.pairs.size() << ", \"largest_message\": " << big << ", \"send_stride\": " << p.send_stride
           << ", \"polling_scopes\": " << p.scopes << ", \"wait_in_flight\": " << (p.wait_in_flight ? "true" : "false") << ", \"burst_posters\": " << (p.burst ? p.posters : 0) << ", \"second_scope_polls_on_default_pool\": " << (p.second_scope_on_default_pool ? "true" : "false") << "}";
    }
    os << "]}";
    return os.str();
}

struct PairRt
{
    std::vector<unsigned char> sbuf, rbuf;
    std::atomic<int> recv_signals{0}, send_signals{0};
    std::atomic<int> bad_payload{0};
};

static bool g_saw_dedicated_pool = false;
static std::string run_program(Prog const& p, int index, Quiescence& q)
{
    RtConfig cfg;
    cfg.workers = p.workers;
    cfg.policy = 0;
    static ArgvHolder ah;
    ah.s = config_args(cfg);
    ah.s.push_back("--pika:mpi-completion-mode=" + std::to_string(p.mode));
    if (p.pool && p.pool_kind == 0) ah.s.push_back("--pika:mpi-enable-pool");
    ah.build();
    setenv("PIKA_MPI_POLLING_SIZE", std::to_string(p.polling_size).c_str(), 1);
    pika::init_params ip;
    static char const* const own_pool = "verif-comm";
    if (p.pool && p.pool_kind == 1)
        ip.rp_callback = [](pika::resource::partitioner& rp, pika::program_options::variables_map const&) { mpi::detail::create_pool(rp, "", mpi::polling_pool_creation_mode::mode_force_create); };
    if (p.pool && p.pool_kind == 2)
        ip.rp_callback = [](pika::resource::partitioner& rp, pika::program_options::variables_map const&) {
            auto mode = pika::threads::scheduler_mode(pika::threads::scheduler_mode::default_mode & ~pika::threads::scheduler_mode::enable_idle_backoff);
            rp.create_thread_pool(own_pool, pika::resource::scheduling_policy::local_priority_fifo, mode);
            rp.add_resource(rp.sockets()[0].cores()[0].pus()[0], own_pool);
        };
    pika::start(nullptr, static_cast<int>(ah.s.size()), ah.p.data(), ip);
    if (pika::resource::get_num_thread_pools() > 1) g_saw_dedicated_pool = true;
    std::string where = "program " + std::to_string(index) + " (mode " + std::to_string(p.mode) + " " + method_name(p.mode) + ", " + std::to_string(p.pairs.size()) + " pairs): ";
    std::size_t n = p.pairs.size();
    std::vector<std::unique_ptr<PairRt>> prs;
    for (std::size_t i = 0; i < n; ++i)
    {
        auto r = std::make_unique<PairRt>();
        long sz = sizes[p.pairs[i].size_idx];
        r->sbuf.resize(static_cast<std::size_t>(sz));
        r->rbuf.assign(static_cast<std::size_t>(sz), 0);
        for (long k = 0; k < sz; ++k) r->sbuf[static_cast<std::size_t>(k)] = static_cast<unsigned char>((k * 31 + static_cast<long>(i) * 7 + 1) & 0xff);
        prs.push_back(std::move(r));
    }
    std::atomic<long long> recv_done{0}, send_done{0};
    G().diagnose = [&] { return where + "receives signalled " + std::to_string(recv_done.load()) + "/" + std::to_string(n) + ", sends " + std::to_string(send_done.load()) + ", mpi work count " + std::to_string(mpi::get_work_count()); };
    std::string err;
    // lost-completion monitor: every send has signalled, the data of an unsignalled receive is completely
    // there (so MPI has completed that receive), no task was activated and nothing was signalled for 3 s
    // although the poller runs all the time -> the completion was lost by the polling machinery
    std::atomic<bool> mon_stop{false};
    std::thread mon([&] {
        long long last = -1;
        std::uint64_t last_phase = 0;
        int same = 0;
        while (!mon_stop.load())
        {
            struct timespec ts { 0, 100000000 };
            nanosleep(&ts, nullptr);
            long long now = recv_done.load() + send_done.load();
            std::uint64_t ph = G().phase_counter.load();
            bool all_sent_posted_done = true;
            std::size_t lost = n;
            for (std::size_t i = 0; i < n; ++i)
            {
                if (prs[i]->send_signals.load() == 1 && prs[i]->recv_signals.load() == 0 && prs[i]->rbuf == prs[i]->sbuf && !prs[i]->sbuf.empty()) { lost = i; }
            }
            (void) all_sent_posted_done;
            if (lost != n && now == last && ph == last_phase) ++same; else same = 0;
            last = now;
            last_phase = ph;
            if (same >= 30)
                fail_now("completion_lost", where + "receive " + std::to_string(lost) + ": its send has signalled and all " + std::to_string(prs[lost]->rbuf.size()) +
                        " bytes are in the receive buffer, but its sender never signalled the receiver although nothing else happened for 3 s (mpi work count " + std::to_string(mpi::get_work_count()) + ")");
        }
    });
    struct StopMon { std::atomic<bool>& f; std::thread& t; ~StopMon() { f = true; if (t.joinable()) t.join(); } } stop_mon{mon_stop, mon};
    ex::thread_pool_scheduler sched{};
    std::size_t per_scope = (n + static_cast<std::size_t>(p.scopes) - 1) / static_cast<std::size_t>(p.scopes);
    for (int sc = 0; sc < p.scopes && err.empty(); ++sc)
    {
        std::size_t lo = static_cast<std::size_t>(sc) * per_scope, hi = std::min(n, lo + per_scope);
        if (lo >= hi) break;
        std::optional<mpi::enable_polling> ep;
        if (sc == 1 && p.second_scope_on_default_pool) ep.emplace(mpi::no_handler, "default");
        else if (p.pool && p.pool_kind == 2) ep.emplace(mpi::no_handler, own_pool);
        else ep.emplace();
        auto post_recv = [&](std::size_t i) {
            PairRt* r = prs[i].get();
            int cnt = static_cast<int>(r->rbuf.size());
            ex::start_detached(ex::then(mpi::transform_mpi(ex::transfer_just(sched, static_cast<void*>(r->rbuf.data()), cnt, MPI_BYTE, 0, static_cast<int>(i), MPI_COMM_WORLD), MPI_Irecv),
                [r, &recv_done](auto&&...) {
                    // the transfer is complete: the data must be fully visible now
                    if (r->rbuf != r->sbuf) r->bad_payload.store(1);
                    r->recv_signals.fetch_add(1);
                    recv_done.fetch_add(1);
                }));
        };
        auto post_send = [&](std::size_t i) {
            PairRt* r = prs[i].get();
            int cnt = static_cast<int>(r->sbuf.size());
            ex::start_detached(ex::then(mpi::transform_mpi(ex::transfer_just(sched, static_cast<void const*>(r->sbuf.data()), cnt, MPI_BYTE, 0, static_cast<int>(i), MPI_COMM_WORLD), MPI_Isend),
                [r, &send_done](auto&&...) { r->send_signals.fetch_add(1); send_done.fetch_add(1); }));
        };
        std::size_t m = hi - lo;
        if (p.burst)
        {
            // each poster task issues its slice of receives, then the matching sends, inline and without yielding
            for (int w = 0; w < p.posters; ++w)
            {
                ex::execute(sched, [&, w] {
                    for (std::size_t i = lo + static_cast<std::size_t>(w); i < hi; i += static_cast<std::size_t>(p.posters))
                    {
                        PairRt* r = prs[i].get();
                        int cnt = static_cast<int>(r->rbuf.size());
                        ex::start_detached(ex::then(mpi::transform_mpi(ex::just(static_cast<void*>(r->rbuf.data()), cnt, MPI_BYTE, 0, static_cast<int>(i), MPI_COMM_WORLD), MPI_Irecv),
                            [r, &recv_done](auto&&...) {
                                if (r->rbuf != r->sbuf) r->bad_payload.store(1);
                                r->recv_signals.fetch_add(1);
                                recv_done.fetch_add(1);
                            }));
                    }
                    for (std::size_t i = lo + static_cast<std::size_t>(w); i < hi; i += static_cast<std::size_t>(p.posters))
                    {
                        PairRt* r = prs[i].get();
                        int cnt = static_cast<int>(r->sbuf.size());
                        ex::start_detached(ex::then(mpi::transform_mpi(ex::just(static_cast<void const*>(r->sbuf.data()), cnt, MPI_BYTE, 0, static_cast<int>(i), MPI_COMM_WORLD), MPI_Isend),
                            [r, &send_done](auto&&...) { r->send_signals.fetch_add(1); send_done.fetch_add(1); }));
                    }
                });
            }
            m = 0;    // nothing left for the one-task-per-request path below
        }
        for (std::size_t i = lo; i < hi && m; ++i) if (p.pairs[i].recv_first) post_recv(i);
        // scattered send order
        std::vector<bool> sent(m, false);
        std::size_t pos = 0;
        for (std::size_t k = 0; k < m; ++k)
        {
            pos = (pos + static_cast<std::size_t>(p.send_stride)) % m;
            while (sent[pos]) pos = (pos + 1) % m;
            sent[pos] = true;
            post_send(lo + pos);
        }
        for (std::size_t i = lo; i < hi && m; ++i) if (!p.pairs[i].recv_first) post_recv(i);
        if (p.wait_in_flight || sc + 1 == p.scopes || true)
        {
            // pika::wait() must not return while requests are in flight
            MainWaiting mw;
            pika::wait();
        }
        long long want = static_cast<long long>(hi);
        if (recv_done.load() != want || send_done.load() != want)
            err = where + "pika::wait() returned while MPI requests were still in flight: " + std::to_string(recv_done.load()) + " receives and " + std::to_string(send_done.load()) + " sends of " + std::to_string(want) + " had signalled";
        else if (mpi::get_work_count() != 0) err = where + "mpi work count is " + std::to_string(mpi::get_work_count()) + " after pika::wait()";
        // leaving the scope calls stop_polling()
    }
    if (err.empty())
        for (std::size_t i = 0; i < n; ++i)
        {
            if (prs[i]->recv_signals.load() != 1) { err = where + "receive " + std::to_string(i) + " signalled " + std::to_string(prs[i]->recv_signals.load()) + " times"; break; }
            if (prs[i]->send_signals.load() != 1) { err = where + "send " + std::to_string(i) + " signalled " + std::to_string(prs[i]->send_signals.load()) + " times"; break; }
            if (prs[i]->bad_payload.load()) { err = where + "receive " + std::to_string(i) + " (" + std::to_string(prs[i]->rbuf.size()) + " bytes) was signalled before the data was completely visible"; break; }
        }
    // the detector samples pool state while the main thread is parked in pika::wait(): it must have left its sampling (and must not start
    // another one) before the pools are torn down -- a snapshot that overlapped pika::stop() crashed twice in one overloaded run
    q.enter_stop_mode([] { return true; });
    pika::finalize();
    pika::stop();
    return err;
}

static Outcome run(tape_t const& tape)
{
    Case c = decode(tape);
    int provided = 0;
    MPI_Init_thread(nullptr, nullptr, MPI_THREAD_MULTIPLE, &provided);
    Outcome out;
    if (provided != MPI_THREAD_MULTIPLE) { out.kind = Outcome::INCONCLUSIVE; out.msg = "MPI_THREAD_MULTIPLE not provided"; return out; }
    RtConfig hookcfg;
    install_hook(hookcfg);
    long long pairs = 0;
    bool nt = false;
    for (std::size_t i = 0; i < c.progs.size() && out.kind == Outcome::PASS; ++i)
    {
        Quiescence q;
        q.start();
        std::string err = run_program(c.progs[i], static_cast<int>(i), q);
        q.enter_stop_mode([] { return true; });
        q.finish();
        if (!err.empty())
        {
            char const* o = err.find("in flight") != std::string::npos ? "wait_returned_with_requests_in_flight" : err.find("visible") != std::string::npos ? "signalled_before_transfer_complete" :
                                                                                                                   err.find("work count") != std::string::npos ? "work_count_after_wait" : "signal_count";
            out = Outcome::fail(o, err);
        }
        pairs += static_cast<long long>(c.progs[i].pairs.size());
        long big = 0;
        for (auto const& pr : c.progs[i].pairs) big = std::max(big, sizes[pr.size_idx]);
        nt |= c.progs[i].pairs.size() >= 8 && big >= 70000 && c.progs[i].mode != 30;
        out.tags.push_back(std::string("method:") + method_name(c.progs[i].mode));
        if (c.progs[i].pairs.size() > 32) out.tags.push_back("has:>32_requests_in_flight");
        if (c.progs[i].burst) out.tags.push_back("has:burst_of_requests_from_one_task");
        if (c.progs[i].pool && c.progs[i].pool_kind != 0) out.tags.push_back(((c.progs[i].mode & 1) == 0) ? "has:dedicated_polling_pool,requests_transferred(single_threaded_polling)" : "has:dedicated_polling_pool,requests_inline");
        if (c.progs[i].second_scope_on_default_pool && c.progs[i].pool_kind != 0) out.tags.push_back("has:second_polling_scope_moves_to_default_pool");
    }
    MPI_Finalize();
    if (g_saw_dedicated_pool) out.tags.push_back("saw:runtime_has_a_second_thread_pool_for_mpi");
    out.counters["pairs"] = pairs;
    out.counters["programs"] = static_cast<long long>(c.progs.size());
    out.nontrivial = nt;
    std::sort(out.tags.begin(), out.tags.end());
    out.tags.erase(std::unique(out.tags.begin(), out.tags.end()), out.tags.end());
    return out;
}

int main(int argc, char** argv)
{
    Target T;
    T.property = "C20";
    T.engine = "E-rt";
    T.forked = true;
    T.tape_scale = 3;
    T.child_timeout_s = 90;
    T.describe = describe;
    T.run = run;
    T.signature = [](tape_t const&, Outcome const& o) { return std::string("{\"oracle\": ") + jstr(o.oracle) + "}"; };
    return target_main(argc, argv, T);
}
