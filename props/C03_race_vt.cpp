// C03 (races) — split / split_tuple / ensure_started / when_all / when_all_vector when the predecessor's completion
// races with consumers being connected and started from other threads.   Engine: E-vt.
// The protocol of these adaptors ("predecessor_done" flag + lock + continuation list, predecessors_remaining
// counter) is exactly a check-then-act hand-off: the hook sites 120..129 inside it and the spinlock/agent
// operations are schedule decision points.  Oracle: every started consumer receives exactly one completion
// signal, the one the predecessor produced (same value / same error id / stopped), nothing is signalled twice,
// and every consumer completes (an all-blocked/spinning state = a lost completion).
#include "vt.hpp"
#include "quarantine.hpp"    // poisoning quarantine allocator: use-after-free oracle for the whole process

#include <pika/execution.hpp>

#include <exception>
#include <memory>
#include <optional>
#include <tuple>
#include <vector>

using namespace vf;
namespace ex = pika::execution::experimental;

struct TestErr { int e; };

// ---- leaf whose completion is performed by a designated logical thread -------------------------------------
struct LeafSlot
{
    std::function<void()> complete;    // set by start(): performs the completion signal
    int started = 0, completed = 0;
};
struct VtLeaf
{
    using is_sender = void;
    template <template <typename...> class Tuple, template <typename...> class Variant>
    using value_types = Variant<Tuple<int>>;
    template <template <typename...> class Variant>
    using error_types = Variant<std::exception_ptr>;
    static constexpr bool sends_done = true;
    using completion_signatures = ex::completion_signatures<ex::set_value_t(int), ex::set_error_t(std::exception_ptr), ex::set_stopped_t()>;

    LeafSlot* slot;
    int channel, val, err;
    bool inline_complete;

    template <typename R>
    struct op
    {
        std::decay_t<R> r;
        LeafSlot* slot;
        int channel, val, err;
        bool inline_complete;
        op(R&& rr, VtLeaf const& s) : r(std::forward<R>(rr)), slot(s.slot), channel(s.channel), val(s.val), err(s.err), inline_complete(s.inline_complete) {}
        op(op&&) = delete;
        void complete() noexcept
        {
            ++slot->completed;
            if (channel == 0) ex::set_value(std::move(r), int(val));
            else if (channel == 1) ex::set_error(std::move(r), std::make_exception_ptr(TestErr{err}));
            else ex::set_stopped(std::move(r));
        }
        void start() & noexcept
        {
            ++slot->started;
            if (inline_complete) { complete(); return; }
            slot->complete = [this] { complete(); };
            vt::step();    // (progress for threads polling the slot; also a decision point inside the adaptor's start)
        }
    };
    template <typename R>
    op<R> connect(R&& r) const& { return op<R>(std::forward<R>(r), *this); }
    template <typename R>
    op<R> connect(R&& r) && { return op<R>(std::forward<R>(r), *this); }
};

// ---- consumer receiver ----------------------------------------------------------------------------------------
struct Got
{
    int signals = 0, kind = -1, v = 0;
};
struct Recv
{
    using is_receiver = void;
    Got* g;
    template <typename... Ts>
    // (the signal count is published last: a thread that has seen it may destroy the operation state this receiver lives in)
    void set_value(Ts&&... ts) && noexcept
    {
        Got* gg = g;
        gg->kind = 0;
        int acc = 0;
        auto add = [&](auto const& x) {
            if constexpr (std::is_same_v<std::decay_t<decltype(x)>, int>) acc = acc * 31 + x;
            else for (int y : x) acc = acc * 31 + y;
        };
        (add(ts), ...);
        gg->v = acc;
        ++gg->signals;
    }
    void set_error(std::exception_ptr ep) && noexcept
    {
        Got* gg = g;
        gg->kind = 1;
        if (!ep) gg->v = -3;
        else
        {
            try { std::rethrow_exception(ep); }
            catch (TestErr const& t) { gg->v = t.e; }
            catch (...) { gg->v = -2; }
        }
        ++gg->signals;
    }
    void set_stopped() && noexcept { Got* gg = g; gg->kind = 2; gg->v = 0; ++gg->signals; }
};

enum Adaptor { A_SPLIT, A_ENSURE_STARTED, A_SPLIT_TUPLE, A_WHEN_ALL, A_WHEN_ALL_VECTOR, A_ENSURE_STARTED_SPLIT, A_COUNT };
static char const* const adaptor_names[] = {"split", "ensure_started", "split_tuple", "when_all", "when_all_vector", "split(ensure_started)"};

struct LeafSpec
{
    int channel = 0, completer = 1, delay = 0;
    bool inline_complete = false;
};
struct ConsSpec
{
    int thread = 1, delay = 0;
    bool drop_unstarted = false;
};
struct Case
{
    int adaptor = 0, nth = 2;
    std::vector<LeafSpec> leaves;    // 1 for split/ensure_started/split_tuple, 2..3 for when_all*
    std::vector<ConsSpec> cons;      // 1..3 consumers (copies of the split sender / elements of split_tuple); 1 for the others
    // every consumer's operation state is destroyed by the thread that started it as soon as it has seen the completion signal
    // (what sync_wait / start_detached / drop_operation_state do), instead of at the end of the case: whoever delivered the signal
    // may still be inside the adaptor's shared state, which must stay alive for it (found F23 in split_tuple on the real runtime)
    bool eager_destroy = false;
};

static Case decode(Tape& t)
{
    Case c;
    c.adaptor = static_cast<int>(t.below(A_COUNT));
    c.nth = 2 + static_cast<int>(t.below(3));
    int nl = (c.adaptor == A_WHEN_ALL || c.adaptor == A_WHEN_ALL_VECTOR) ? 2 + static_cast<int>(t.below(2)) : 1;
    for (int i = 0; i < nl; ++i)
    {
        LeafSpec l;
        l.channel = t.weighted({5, 2, 2});
        l.completer = static_cast<int>(t.below(static_cast<std::uint32_t>(c.nth)));
        l.delay = static_cast<int>(t.below(4));
        l.inline_complete = t.chance(1, 5);
        c.leaves.push_back(l);
    }
    int nc = 1;
    if (c.adaptor == A_SPLIT || c.adaptor == A_ENSURE_STARTED_SPLIT) nc = 1 + static_cast<int>(t.below(3));
    if (c.adaptor == A_SPLIT_TUPLE) nc = 2;
    for (int i = 0; i < nc; ++i)
    {
        ConsSpec s;
        s.thread = static_cast<int>(t.below(static_cast<std::uint32_t>(c.nth)));
        s.delay = static_cast<int>(t.below(4));
        s.drop_unstarted = nc > 1 && t.chance(1, 6);
        c.cons.push_back(s);
    }
    c.eager_destroy = t.chance(1, 2);
    return c;
}

static std::string describe(tape_t const& tape)
{
    Tape t(tape);
    Case c = decode(t);
    std::ostringstream os;
    os << "{\"adaptor\": \"" << adaptor_names[c.adaptor] << "\", \"threads\": " << c.nth << ", \"predecessors\": [";
    for (std::size_t i = 0; i < c.leaves.size(); ++i)
        os << (i ? ", " : "") << "\"" << (c.leaves[i].channel == 0 ? "value" : c.leaves[i].channel == 1 ? "error" : "stopped")
           << (c.leaves[i].inline_complete ? " inline" : " by T" + std::to_string(c.leaves[i].completer) + " after " + std::to_string(c.leaves[i].delay)) << "\"";
    os << "], \"consumers\": [";
    for (std::size_t i = 0; i < c.cons.size(); ++i)
        os << (i ? ", " : "") << "\"T" << c.cons[i].thread << " after " << c.cons[i].delay << (c.cons[i].drop_unstarted ? " drop_unstarted" : " start") << "\"";
    os << "], \"operation_states_destroyed\": \"" << (c.eager_destroy ? "by their starter as soon as it has seen the completion" : "at the end of the case") << "\", \"schedule_tape_from\": " << t.pos << "}";
    return os.str();
}

using any_t = ex::unique_any_sender<int>;

static Outcome run(tape_t const& tape)
{
    Tape t(tape);
    Case c = decode(t);
    vt::install_vt_hook();
    vf::quarantine::enabled().store(true);
    vt::Sched s;
    std::size_t nl = c.leaves.size(), nc = c.cons.size();
    std::vector<LeafSlot> slots(nl);
    std::vector<Got> got(nc);
    std::vector<int> cons_done(nc, 0);
    std::string fail, oracle;
    auto set_fail = [&](char const* o, std::string m) { if (fail.empty()) { oracle = o; fail = std::move(m); } };

    auto leaf = [&](std::size_t i) { return VtLeaf{&slots[i], c.leaves[i].channel, 100 + static_cast<int>(i), 7 + static_cast<int>(i), c.leaves[i].inline_complete}; };

    // the consumer senders are built by thread 0 before anybody runs (construction itself is not the race)
    std::vector<std::optional<any_t>> senders(nc);
    std::vector<std::shared_ptr<void>> keep;    // operation states live until the end of the case
    std::vector<std::shared_ptr<void>> own(nc);  // ... or until their starter has seen the completion (eager_destroy)
    long long destroyed_early = 0;
    // expected completion
    int exp_kind = 0;
    std::vector<std::pair<int, int>> admissible;    // (kind, v)
    auto leaf_res = [&](std::size_t i) { return std::make_pair(c.leaves[i].channel, c.leaves[i].channel == 0 ? 100 + static_cast<int>(i) : c.leaves[i].channel == 1 ? 7 + static_cast<int>(i) : 0); };
    (void) exp_kind;
    switch (c.adaptor)
    {
    case A_SPLIT:
    {
        auto sp = ex::split(leaf(0));
        for (std::size_t k = 0; k < nc; ++k) senders[k].emplace(sp);
        admissible.push_back(leaf_res(0));
        break;
    }
    case A_ENSURE_STARTED:
    {
        senders[0].emplace(ex::ensure_started(leaf(0)));
        admissible.push_back(leaf_res(0));
        break;
    }
    case A_ENSURE_STARTED_SPLIT:
    {
        auto sp = ex::split(ex::ensure_started(leaf(0)));
        for (std::size_t k = 0; k < nc; ++k) senders[k].emplace(sp);
        admissible.push_back(leaf_res(0));
        break;
    }
    case A_SPLIT_TUPLE:
    {
        auto tup = ex::then(leaf(0), [](int v) { return std::make_tuple(v, v); });
        auto [a, b] = ex::split_tuple(std::move(tup));
        senders[0].emplace(std::move(a));
        senders[1].emplace(std::move(b));
        admissible.push_back(leaf_res(0));
        break;
    }
    case A_WHEN_ALL:
    {
        if (nl == 2) senders[0].emplace(ex::then(ex::when_all(leaf(0), leaf(1)), [](int a, int b) { return a * 31 + b; }));
        else senders[0].emplace(ex::then(ex::when_all(leaf(0), leaf(1), leaf(2)), [](int a, int b, int cc) { return (a * 31 + b) * 31 + cc; }));
        break;
    }
    default:
    {
        std::vector<VtLeaf> v;
        for (std::size_t i = 0; i < nl; ++i) v.push_back(leaf(i));
        senders[0].emplace(ex::then(ex::when_all_vector(std::move(v)), [](std::vector<int> xs) { int a = 0; for (int x : xs) a = a * 31 + x; return a; }));
        break;
    }
    }
    if (c.adaptor == A_WHEN_ALL || c.adaptor == A_WHEN_ALL_VECTOR)
    {
        bool all_value = true;
        for (std::size_t i = 0; i < nl; ++i)
            if (c.leaves[i].channel != 0) { all_value = false; admissible.push_back(leaf_res(i)); }
        if (all_value)
        {
            int a = 0;
            for (std::size_t i = 0; i < nl; ++i) a = a * 31 + 100 + static_cast<int>(i);
            admissible.push_back({0, a});
        }
    }
    long long overlapped = 0;
    std::size_t handled = 0;    // consumers that were started or dropped
    std::vector<int> cons_in_start(nc, 0);
    int completing = 0;
    for (int th = 0; th < c.nth; ++th)
    {
        s.add([&, th] {
            // consumers of this thread, then completions of this thread, interleaved by delays (steps)
            struct Act { int delay; int kind; std::size_t idx; };
            std::vector<Act> acts;
            for (std::size_t k = 0; k < nc; ++k) if (c.cons[k].thread == th) acts.push_back({c.cons[k].delay, 0, k});
            for (std::size_t i = 0; i < nl; ++i) if (!c.leaves[i].inline_complete && c.leaves[i].completer == th) acts.push_back({c.leaves[i].delay, 1, i});
            // a lazily started predecessor can only complete after some consumer started it: on one thread the starts come first
            bool eager = c.adaptor == A_ENSURE_STARTED || c.adaptor == A_ENSURE_STARTED_SPLIT;
            std::stable_sort(acts.begin(), acts.end(), [eager](Act const& a, Act const& b) {
                if (!eager && a.kind != b.kind) return a.kind < b.kind;
                return a.delay < b.delay;
            });
            int now = 0;
            for (auto const& a : acts)
            {
                for (; now < a.delay; ++now) vt::step();
                if (now > a.delay) { /* (reordered act) */ }
                if (a.kind == 0)
                {
                    std::size_t k = a.idx;
                    if (c.cons[k].drop_unstarted) { senders[k].reset(); cons_done[k] = 1; ++handled; vt::step(); continue; }
                    using OS = decltype(ex::connect(std::move(*senders[k]), Recv{&got[k]}));
                    std::shared_ptr<OS> os(new OS(ex::connect(std::move(*senders[k]), Recv{&got[k]})));
                    if (c.eager_destroy) own[k] = os; else keep.push_back(os);
                    senders[k].reset();
                    vt::step();
                    cons_in_start[k] = 1;
                    if (completing) ++overlapped;
                    ex::start(*os);
                    cons_in_start[k] = 0;
                    ++handled;
                    vt::step();
                }
                else
                {
                    std::size_t i = a.idx;
                    // the leaf must have been started by somebody (a consumer's start, or ensure_started eagerly) before it can complete
                    // (if every consumer was dropped unstarted nobody ever starts it: nothing to complete)
                    while (!slots[i].complete && !(handled == nc && slots[i].started == 0)) s.decision(true);
                    if (!slots[i].complete) continue;
                    auto f = std::move(slots[i].complete);
                    slots[i].complete = nullptr;
                    ++completing;
                    for (std::size_t k = 0; k < nc; ++k) if (cons_in_start[k]) ++overlapped;
                    f();
                    --completing;
                    vt::step();
                }
            }
            if (c.eager_destroy)
                for (std::size_t k = 0; k < nc; ++k)
                {
                    if (c.cons[k].thread != th || c.cons[k].drop_unstarted) continue;
                    while (got[k].signals == 0) s.decision(true);
                    own[k].reset();    // the consumer is done with its operation state
                    ++destroyed_early;
                    vt::step();
                }
            if (th == 0)
            {
                // wait for every consumer's completion: nobody else can produce it once all threads are done
                for (std::size_t k = 0; k < nc; ++k)
                    while (!cons_done[k] && got[k].signals == 0) s.decision(true);
            }
        });
    }
    s.diagnose = [&] {
        std::string d = std::string(adaptor_names[c.adaptor]) + ": ";
        for (std::size_t i = 0; i < nl; ++i) d += "predecessor" + std::to_string(i) + " started=" + std::to_string(slots[i].started) + " completed=" + std::to_string(slots[i].completed) + "; ";
        for (std::size_t k = 0; k < nc; ++k) d += "consumer" + std::to_string(k) + " signals=" + std::to_string(got[k].signals) + (c.cons[k].drop_unstarted ? " (dropped)" : "") + "; ";
        return d + "(a started consumer without a signal after all predecessors completed = lost completion)";
    };
    s.run(t);
    keep.clear();
    own.clear();
    {
        std::string q = vf::quarantine::check();
        if (!q.empty()) set_fail("write_after_free", q);
    }
    for (std::size_t k = 0; k < nc && fail.empty(); ++k)
    {
        if (c.cons[k].drop_unstarted) continue;
        if (got[k].signals != 1) { set_fail("signal_count", "consumer " + std::to_string(k) + " received " + std::to_string(got[k].signals) + " completion signals"); break; }
        bool ok = false;
        for (auto const& a : admissible) ok |= a.first == got[k].kind && a.second == got[k].v;
        if (!ok)
        {
            std::string adm;
            for (auto const& a : admissible) adm += (a.first == 0 ? "value " : a.first == 1 ? "error#" : "stopped ") + std::to_string(a.second) + "; ";
            set_fail("wrong_completion", "consumer " + std::to_string(k) + " received " + (got[k].kind == 0 ? "value " : got[k].kind == 1 ? "error#" : "stopped ") + std::to_string(got[k].v) + " but the admissible completions are {" + adm + "}");
        }
    }
    for (std::size_t i = 0; i < nl && fail.empty(); ++i)
        if (slots[i].started > 1 || slots[i].completed > 1) set_fail("predecessor_started_twice", "predecessor " + std::to_string(i) + " was started " + std::to_string(slots[i].started) + " times");
    Outcome out;
    if (!fail.empty()) out = Outcome::fail(oracle, fail);
    out.counters["decisions"] = s.decisions;
    out.counters["switches"] = s.switches;
    out.counters["start_overlapping_completion"] = overlapped;
    out.nontrivial = overlapped > 0;
    out.tags.push_back(std::string("adaptor:") + adaptor_names[c.adaptor]);
    if (overlapped) out.tags.push_back("saw:consumer_start_overlapped_predecessor_completion");
    if (destroyed_early) out.tags.push_back("has:operation_states_destroyed_right_after_completion");
    return out;
}

int main(int argc, char** argv)
{
    Target T;
    T.property = "C03";
    T.engine = "E-vt";
    T.forked = true;
    T.tape_scale = 3;
    T.child_timeout_s = 30;
    T.describe = describe;
    T.run = run;
    T.signature = [](tape_t const& tape, Outcome const& o) {
        Tape t(tape);
        Case c = decode(t);
        return std::string("{\"oracle\": ") + jstr(o.oracle) + ", \"adaptor\": " + jstr(adaptor_names[c.adaptor]) + "}";
    };
    return target_main(argc, argv, T);
}
