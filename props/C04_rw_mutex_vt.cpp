// C04 — async_rw_mutex: exclusive writers, grouped readers, request-order grants.   Engine: E-vt.
#include "vt.hpp"
#include "quarantine.hpp"    // poisoning quarantine allocator: use-after-free oracle for the whole process

#include <pika/execution.hpp>
#include <pika/execution/async_rw_mutex.hpp>

#include <memory>
#include <optional>

using namespace vf;
namespace ex = pika::execution::experimental;

using mutex_t = ex::async_rw_mutex<int>;
using rd_t = mutex_t::read_access_type;
using rw_t = mutex_t::readwrite_access_type;

struct Req
{
    bool write = false;
    int thread = 1;          // logical thread that starts it (1..nth-1)
    int action = 0;          // 0 connect+start, 1 drop the sender unstarted, 2 (reads) start a copy of the sender as well
    int start_delay = 0;     // steps before starting
    int hold = 0;            // steps the access is held
    bool copy_wrapper = false;    // reads: copy the wrapper, release the two copies at different times
    bool keep_op_state = false;   // the operation state outlives the access (destroyed at the end of the case): legal, and must not withhold later accesses
};
struct Case
{
    int nth = 2;
    std::vector<Req> reqs;
    int destroy_mutex_after = -1;    // thread 0 destroys the mutex after issuing all requests and this many steps (-1: at the end)
    // the requester move-assigns the mutex into another mutex object (which has a small history of its own: one read request)
    // before issuing request number move_before; all later requests go to that object.  The request order is one order.
    int move_before = -1;
};

static Case decode(Tape& t)
{
    Case c;
    c.nth = 2 + static_cast<int>(t.below(3));
    int n = 1 + static_cast<int>(t.below(8));
    for (int i = 0; i < n; ++i)
    {
        Req r;
        r.write = t.chance(2, 5);
        r.thread = 1 + static_cast<int>(t.below(static_cast<std::uint32_t>(c.nth - 1)));
        r.action = t.weighted({6, 1, 2});
        if (r.write && r.action == 2) r.action = 0;
        r.start_delay = static_cast<int>(t.below(4));
        r.hold = static_cast<int>(t.below(4));
        r.copy_wrapper = !r.write && t.chance(1, 3);
        r.keep_op_state = t.chance(1, 3);
        c.reqs.push_back(r);
    }
    c.destroy_mutex_after = t.chance(1, 2) ? static_cast<int>(t.below(6)) : -1;
    c.move_before = (n >= 2 && t.chance(1, 3)) ? 1 + static_cast<int>(t.below(static_cast<std::uint32_t>(n - 1))) : -1;
    return c;
}

static std::string describe(tape_t const& tape)
{
    Tape t(tape);
    Case c = decode(t);
    std::ostringstream os;
    os << "{\"threads\": " << c.nth << ", \"requests\": [";
    for (std::size_t i = 0; i < c.reqs.size(); ++i)
    {
        auto const& r = c.reqs[i];
        os << (i ? ", " : "") << "\"" << (r.write ? "W" : "R") << " on T" << r.thread << " "
           << (r.action == 0 ? "start" : r.action == 1 ? "drop_unstarted" : "start+copy_of_sender") << " delay" << r.start_delay << " hold" << r.hold
           << (r.copy_wrapper ? " copy_wrapper" : "") << (r.keep_op_state ? " op_state_kept_alive" : "") << "\"";
    }
    os << "], \"mutex_move_assigned_before_request\": " << c.move_before << ", \"destroy_mutex_after_steps\": " << c.destroy_mutex_after << ", \"schedule_tape_from\": " << t.pos << "}";
    return os.str();
}

// ------------------------------------------------------------------------------------------------
struct World
{
    Case const* c = nullptr;
    std::vector<int> group;                 // group index per request (maximal R-runs / single W)
    std::vector<int> grants, held, released_all, expected_value;
    int nreq = 0;
    std::string fail, oracle;
    long long overlaps_checked = 0;
    void set_fail(char const* o, std::string m)
    {
        if (fail.empty()) { oracle = o; fail = std::move(m); }
    }
    void on_grant(int i, int value)
    {
        Req const& r = c->reqs[static_cast<std::size_t>(i)];
        if (++grants[static_cast<std::size_t>(i)] > 1) set_fail("granted_twice", "access " + std::to_string(i) + " was granted more than once");
        // nothing of another group may be held; within a read group only reads are held
        for (int j = 0; j < nreq; ++j)
        {
            if (j == i || !held[static_cast<std::size_t>(j)]) continue;
            ++overlaps_checked;
            if (group[static_cast<std::size_t>(j)] != group[static_cast<std::size_t>(i)] || r.write || c->reqs[static_cast<std::size_t>(j)].write)
                set_fail("overlap", std::string(r.write ? "read-write" : "read") + " access " + std::to_string(i) + " was granted while " +
                        (c->reqs[static_cast<std::size_t>(j)].write ? "read-write" : "read") + " access " + std::to_string(j) + " (group " +
                        std::to_string(group[static_cast<std::size_t>(j)]) + " vs " + std::to_string(group[static_cast<std::size_t>(i)]) + ") is still held");
        }
        // request order between groups: every observed access of an earlier group is completely released;
        // none of a later group has been granted
        for (int j = 0; j < nreq; ++j)
        {
            if (c->reqs[static_cast<std::size_t>(j)].action == 1) continue;    // dropped unstarted: not observable
            if (group[static_cast<std::size_t>(j)] < group[static_cast<std::size_t>(i)] && !released_all[static_cast<std::size_t>(j)])
                set_fail("order", "access " + std::to_string(i) + " (group " + std::to_string(group[static_cast<std::size_t>(i)]) + ") granted before earlier access " +
                        std::to_string(j) + " (group " + std::to_string(group[static_cast<std::size_t>(j)]) + ") was released");
            if (group[static_cast<std::size_t>(j)] > group[static_cast<std::size_t>(i)] && grants[static_cast<std::size_t>(j)] > 0)
                set_fail("order", "access " + std::to_string(j) + " of a later group was granted before access " + std::to_string(i));
        }
        if (value != expected_value[static_cast<std::size_t>(i)])
            set_fail("stale_value", "access " + std::to_string(i) + " observed value " + std::to_string(value) + ", expected " +
                    std::to_string(expected_value[static_cast<std::size_t>(i)]) + " (number of earlier started read-write accesses)");
        held[static_cast<std::size_t>(i)] += 1;
    }
};

template <typename Wrapper>
struct Recv
{
    using is_receiver = void;
    World* w;
    int i;
    std::optional<Wrapper>* slot;
    int* got;
    void set_value(Wrapper a) && noexcept
    {
        int v = a.get();
        w->on_grant(i, v);
        slot->emplace(std::move(a));
        *got = 1;
    }
    void set_error(std::exception_ptr) && noexcept { w->set_fail("error_signal", "access sender completed with set_error"); *got = 1; }
    void set_stopped() && noexcept { w->set_fail("stopped_signal", "access sender completed with set_stopped"); *got = 1; }
};

static void spin_until(int const& flag)
{
    // polling through the scheduler: if nobody can make progress this is reported as an exact livelock
    while (!flag) vt::cur_sched()->decision(true);
}

static Outcome run(tape_t const& tape)
{
    Tape t(tape);
    Case c = decode(t);
    vt::install_vt_hook();
    vf::quarantine::enabled().store(true);
    vt::Sched s;
    World W;
    W.c = &c;
    W.nreq = static_cast<int>(c.reqs.size());
    std::size_t n = c.reqs.size();
    W.group.assign(n, 0);
    W.grants.assign(n, 0);
    W.held.assign(n, 0);
    W.released_all.assign(n, 0);
    W.expected_value.assign(n, 0);
    {
        int g = 0, writes = 0;
        for (std::size_t i = 0; i < n; ++i)
        {
            if (i > 0 && (c.reqs[i].write || c.reqs[i - 1].write)) ++g;
            W.group[i] = g;
            W.expected_value[i] = writes;
            if (c.reqs[i].write && c.reqs[i].action != 1) ++writes;    // a dropped read-write access does not run our increment
        }
    }
    // senders are requested by thread 0 (requests are not thread-safe), then handed to their starters
    std::vector<std::optional<decltype(std::declval<mutex_t&>().read())>> rsend(n);
    std::vector<std::optional<decltype(std::declval<mutex_t&>().readwrite())>> wsend(n);
    std::vector<int> issued(n, 0);
    auto mtx = std::make_unique<mutex_t>(0);
    int all_issued = 0;
    // operation states that outlive their access (destroyed after the schedule has run)
    std::vector<std::shared_ptr<void>> kept_op_states;
    long long kept = 0;

    // the other mutex object: it has seen one read request of its own (dropped unstarted at the end)
    mutex_t other(-1);
    std::optional<decltype(std::declval<mutex_t&>().read())> other_read;
    if (c.move_before >= 0) other_read.emplace(other.read());
    mutex_t* cur = mtx.get();
    s.add([&] {
        for (std::size_t i = 0; i < n; ++i)
        {
            if (static_cast<int>(i) == c.move_before)
            {
                other = std::move(*mtx);    // move assignment: `other` continues the request chain of *mtx
                cur = &other;
                vt::step();
            }
            if (c.reqs[i].write) wsend[i].emplace(cur->readwrite()); else rsend[i].emplace(cur->read());
            issued[i] = 1;
            vt::step();
        }
        all_issued = 1;
        if (c.destroy_mutex_after >= 0)
        {
            for (int k = 0; k < c.destroy_mutex_after; ++k) vt::step();
            mtx.reset();    // the wrapped value must outlive the mutex
        }
    });
    for (int th = 1; th < c.nth; ++th)
    {
        s.add([&, th] {
            for (std::size_t i = 0; i < n; ++i)
            {
                Req const& r = c.reqs[i];
                if (r.thread != th) continue;
                spin_until(issued[i]);
                for (int k = 0; k < r.start_delay; ++k) vt::step();
                if (r.action == 1)
                {
                    // drop unstarted: the destructor start_detaches it, so the chain must not stall
                    if (r.write) wsend[i].reset(); else rsend[i].reset();
                    continue;
                }
                if (r.write)
                {
                    std::optional<rw_t> slot;
                    int got = 0;
                    using OS = decltype(ex::connect(std::move(*wsend[i]), Recv<rw_t>{&W, static_cast<int>(i), &slot, &got}));
                    std::shared_ptr<OS> osp(new OS(ex::connect(std::move(*wsend[i]), Recv<rw_t>{&W, static_cast<int>(i), &slot, &got})));
                    if (r.keep_op_state) { kept_op_states.push_back(osp); ++kept; }
                    auto& os = *osp;
                    wsend[i].reset();
                    ex::start(os);
                    spin_until(got);
                    if (slot)
                    {
                        slot->get() += 1;    // the modification later accesses must observe
                        for (int k = 0; k < r.hold; ++k) vt::step();
                        // bookkeeping first: destroying the last wrapper grants the next access synchronously
                        W.held[i] -= 1;
                        W.released_all[i] = 1;
                        slot.reset();
                    }
                }
                else
                {
                    std::optional<rd_t> slot, slot2;
                    int got = 0, got2 = 0;
                    std::optional<decltype(std::declval<mutex_t&>().read())> copy;
                    if (r.action == 2) copy.emplace(*rsend[i]);
                    using OS = decltype(ex::connect(std::move(*rsend[i]), Recv<rd_t>{&W, static_cast<int>(i), &slot, &got}));
                    std::shared_ptr<OS> osp(new OS(ex::connect(std::move(*rsend[i]), Recv<rd_t>{&W, static_cast<int>(i), &slot, &got})));
                    if (r.keep_op_state) { kept_op_states.push_back(osp); ++kept; }
                    auto& os = *osp;
                    rsend[i].reset();
                    ex::start(os);
                    if (copy)
                    {
                        // a second start of the same read request: same group, counted under the same index
                        W.grants[i] -= 1;    // (two grants expected for this index)
                        auto os2 = ex::connect(std::move(*copy), Recv<rd_t>{&W, static_cast<int>(i), &slot2, &got2});
                        copy.reset();
                        ex::start(os2);
                        spin_until(got2);
                    }
                    spin_until(got);
                    std::optional<rd_t> wcopy;
                    if (r.copy_wrapper && slot) wcopy.emplace(*slot);
                    for (int k = 0; k < r.hold; ++k) vt::step();
                    // bookkeeping before each release: destroying the last copy grants the next group synchronously
                    int copies = (slot ? 1 : 0) + (wcopy ? 1 : 0) + (slot2 ? 1 : 0);
                    auto release = [&](std::optional<rd_t>& w, bool counts_grant) {
                        if (!w) return;
                        if (counts_grant) W.held[i] -= 1;
                        if (--copies == 0) W.released_all[i] = 1;
                        w.reset();
                    };
                    if (wcopy && wcopy->get() != W.expected_value[i]) W.set_fail("stale_value", "copied read wrapper sees a different value");
                    if (wcopy)
                    {
                        // the wrapper copy keeps the access alive after the original is gone
                        release(slot, false);
                        vt::step();
                        if (wcopy->get() != W.expected_value[i]) W.set_fail("stale_value", "copied read wrapper sees a different value after the original was released");
                        W.held[i] -= 1;
                        if (--copies == 0) W.released_all[i] = 1;
                        wcopy.reset();
                    }
                    else release(slot, true);
                    if (slot2) { vt::step(); release(slot2, true); }
                }
            }
        });
    }
    s.diagnose = [&] {
        std::ostringstream os;
        for (std::size_t i = 0; i < n; ++i)
            os << (c.reqs[i].write ? "W" : "R") << i << ":" << (c.reqs[i].action == 1 ? "dropped" : W.released_all[i] ? "released" : W.grants[i] > 0 ? "held" : "waiting") << " ";
        os << "(every earlier access is released or dropped eventually: a waiting access here was never granted)";
        return os.str();
    };
    s.run(t);
    mtx.reset();
    kept_op_states.clear();
    {
        std::string qc = vf::quarantine::check();
        if (!qc.empty()) W.set_fail("write_after_free", qc);
    }
    Outcome out;
    if (W.fail.empty())
        for (std::size_t i = 0; i < n; ++i)
            if (c.reqs[i].action != 1 && W.grants[i] != 1) { W.set_fail("grant_count", "access " + std::to_string(i) + " granted " + std::to_string(W.grants[i] + (c.reqs[i].action == 2 ? 1 : 0)) + " times"); break; }
    if (!W.fail.empty()) out = Outcome::fail(W.oracle, W.fail);
    int ngroups = n ? W.group[n - 1] + 1 : 0;
    bool multi_read = false, drop = false;
    for (std::size_t i = 0; i + 1 < n; ++i) multi_read |= (!c.reqs[i].write && !c.reqs[i + 1].write);
    for (auto const& r : c.reqs) drop |= r.action == 1;
    out.counters["decisions"] = s.decisions;
    out.counters["switches"] = s.switches;
    out.counters["overlap_pairs_checked"] = W.overlaps_checked;
    out.nontrivial = ngroups >= 2 && (multi_read || drop) && s.switches > c.nth;
    if (multi_read) out.tags.push_back("has:read_group>=2");
    if (drop) out.tags.push_back("has:unstarted_drop");
    if (kept) out.tags.push_back("has:op_state_outlives_access");
    if (c.destroy_mutex_after >= 0) out.tags.push_back("has:mutex_destroyed_early");
    if (c.move_before >= 0) out.tags.push_back("has:mutex_move_assigned_mid_history");
    out.tags.push_back("groups:" + std::to_string(ngroups));
    return out;
}

int main(int argc, char** argv)
{
    Target T;
    T.property = "C04";
    T.engine = "E-vt";
    T.forked = true;
    T.tape_scale = 3;
    T.child_timeout_s = 30;
    T.describe = describe;
    T.run = run;
    T.signature = [](tape_t const&, Outcome const& o) { return std::string("{\"oracle\": ") + jstr(o.oracle) + "}"; };
    return target_main(argc, argv, T);
}
