// C06 — mutexes give mutual exclusion and always hand the lock on.   Engine: E-rt.
#include "rt.hpp"

#include <pika/mutex.hpp>
#include <pika/semaphore.hpp>
#include <pika/synchronization/recursive_mutex.hpp>

using namespace vf;
using namespace vf::rt;

enum LockKind { LK_MUTEX, LK_TIMED, LK_RECURSIVE, LK_SPIN, LK_RECURSIVE_SPIN, LK_COUNT };
static char const* const lock_names[] = {"mutex", "timed_mutex", "recursive_mutex<pika::mutex>", "spinlock", "recursive_mutex<spinlock>"};
enum Form { FM_LOCK, FM_TRY, FM_TRY_FOR, FM_RECURSIVE_N, FM_RELOCK_OWNED, FM_UNLOCK_FOREIGN, FM_COUNT };
static char const* const form_names[] = {"lock", "try_lock", "try_lock_for", "lock^k", "misuse:relock_owned", "misuse:unlock_foreign"};
enum CsOp { CS_COUNTER, CS_PATTERN, CS_YIELD, CS_SUSPEND, CS_MIGRATE, CS_SPIN };
static char const* const cs_names[] = {"counter", "pattern", "yield", "suspend", "migrate", "spin"};
// (a timed wait on a pika task busy-yields until its deadline even when notified, so far deadlines only stall the case)
static const long long for_ns[] = {0, 20000, 100000, 500000, 2000000};

struct Block
{
    int lock = 0, form = 0, k = 1, dur = 0;
    bool use_ec = false;
    std::vector<int> cs;
    int gap = 0;    // delay before the block
};
struct TaskSpec
{
    int hint = -1, prio = 0;
    std::vector<Block> blocks;
};
struct Case
{
    RtConfig cfg;
    std::vector<int> locks;    // kinds
    std::vector<TaskSpec> tasks;
    // hand-off chain template: task 0 takes lock 0 and holds it until every other task has started its
    // (single) lock/try_lock_for call, then waits h_delay and unlocks: the situation the hand-off clause names
    bool chain = false;
    int h_delay = 0;
    std::vector<int> w_delay;
    // aligned variant of the chain: the holder unlocks when the earliest try_lock_for deadline of a waiter
    // passes (+ jitter), the overlap of 'timed out' with 'handed the lock' that the hand-off clause must survive
    bool aligned = false;
    int jitter = 0;
};
static const long long jitter_ns[] = {0, -300, 300, -1000, 1000, -3000, 3000, -10000, 10000};
static const long long chain_ns[] = {0, 5000, 20000, 100000, 500000, 2000000};

static Case decode(tape_t const& tape)
{
    Tape t(tape);
    Case c;
    c.cfg = decode_config(t, {S_MUTEX_LOCK_WAIT, S_MUTEX_UNLOCK, S_CV_NOTIFY_ONE, S_CV_WAIT, S_CV_WAIT_UNTIL, S_DO_YIELD, S_SL_AFTER_RUN,
                                 S_STS_BEFORE_CAS, S_STS_BEFORE_SCHEDULE});
    c.cfg.workers = t.weighted({2, 4, 3, 3, 1, 1, 1, 1}) + 1;
    c.chain = t.chance(1, 3);
    if (c.chain)
    {
        c.cfg.workers = std::max(c.cfg.workers, 2);
        int kind = t.weighted({3, 5, 2, 0, 0});    // mutex, timed_mutex, recursive<mutex>
        c.locks.push_back(kind);
        int k = 1 + static_cast<int>(t.below(4));
        c.h_delay = static_cast<int>(t.below(6));
        TaskSpec h;
        Block hb;
        hb.lock = 0;
        hb.form = FM_LOCK;
        h.blocks.push_back(hb);
        c.tasks.push_back(h);
        for (int i = 0; i < k; ++i)
        {
            TaskSpec w;
            Block b;
            b.lock = 0;
            b.form = kind == LK_TIMED ? t.weighted({3, 1, 4}) : t.weighted({4, 1});
            b.dur = static_cast<int>(t.below(5));
            int ncs = t.weighted({3, 2, 1});
            for (int q = 0; q < ncs; ++q) b.cs.push_back(t.weighted({4, 3, 3, 0, 0, 2}));
            w.blocks.push_back(b);
            w.hint = t.chance(1, 3) ? static_cast<int>(t.below(static_cast<std::uint32_t>(c.cfg.workers))) : -1;
            c.tasks.push_back(w);
            c.w_delay.push_back(static_cast<int>(t.below(6)));
        }
        // the unlock / notify / timed-wait hand-off sites get a mandatory perturbation half of the time
        if (t.chance(1, 2))
        {
            Perturb p;
            p.site = t.pick({S_MUTEX_UNLOCK, S_CV_NOTIFY_ONE, S_CV_WAIT_UNTIL, S_MUTEX_UNLOCK});
            p.period = 1;
            p.action = t.pick({0, 2});
            p.dur = 2 + static_cast<int>(t.below(4));
            c.cfg.plan.push_back(p);
        }
        if (kind == LK_TIMED)
        {
            c.aligned = t.chance(1, 2);
            c.jitter = static_cast<int>(t.below(9));
        }
        return c;
    }
    int nl = t.weighted({4, 2, 1}) + 1;
    for (int i = 0; i < nl; ++i) c.locks.push_back(t.weighted({4, 3, 2, 2, 1}));
    // small contention groups are as valuable as big ones: a lost hand-off stays visible only if nobody comes along to rescue the queue
    int nt = t.chance(1, 2) ? 2 + static_cast<int>(t.below(4)) : 2 + static_cast<int>(t.below(23));
    for (int i = 0; i < nt; ++i)
    {
        TaskSpec ts;
        ts.hint = t.chance(1, 3) ? static_cast<int>(t.below(static_cast<std::uint32_t>(c.cfg.workers))) : -1;
        ts.prio = 0;
        int nb = 1 + t.weighted({5, 3, 2, 2, 1, 1});
        for (int b = 0; b < nb; ++b)
        {
            Block bl;
            bl.lock = static_cast<int>(t.below(static_cast<std::uint32_t>(nl)));
            int kind = c.locks[static_cast<std::size_t>(bl.lock)];
            bl.form = t.weighted({6, 3, 5, 2, 1, 1});
            if (bl.form == FM_TRY_FOR && kind != LK_TIMED) bl.form = FM_TRY;
            if (bl.form == FM_RECURSIVE_N && kind != LK_RECURSIVE && kind != LK_RECURSIVE_SPIN) bl.form = FM_LOCK;
            if ((bl.form == FM_RELOCK_OWNED || bl.form == FM_UNLOCK_FOREIGN) && !(kind == LK_MUTEX || kind == LK_TIMED)) bl.form = FM_LOCK;
            bl.k = 2 + static_cast<int>(t.below(3));
            bl.dur = t.weighted({2, 3, 3, 2, 2});
            bl.use_ec = t.chance(1, 2);
            bl.gap = static_cast<int>(t.below(4));
            int ncs = t.weighted({2, 4, 3, 1});
            for (int k = 0; k < ncs; ++k)
            {
                int op = t.weighted({4, 3, 3, 2, 2, 2});
                // a spinlock must not be held across a suspension of the task (documented use: short sections)
                if ((kind == LK_SPIN || kind == LK_RECURSIVE_SPIN) && (op == CS_YIELD || op == CS_SUSPEND || op == CS_MIGRATE)) op = CS_SPIN;
                bl.cs.push_back(op);
            }
            ts.blocks.push_back(std::move(bl));
        }
        c.tasks.push_back(std::move(ts));
    }
    return c;
}

static std::string describe(tape_t const& tape)
{
    Case c = decode(tape);
    std::ostringstream os;
    os << "{\"config\": " << c.cfg.describe();
    if (c.chain)
    {
        os << ", \"template\": \"hand_off_chain\", \"holder_unlock_delay_ns\": " << chain_ns[c.h_delay] << ", \"waiter_start_delay_ns\": [";
        for (std::size_t i = 0; i < c.w_delay.size(); ++i) os << (i ? "," : "") << chain_ns[c.w_delay[i]];
        os << "]";
        if (c.aligned) os << ", \"unlock_aligned_to_first_deadline_plus_ns\": " << jitter_ns[c.jitter];
    }
    os << ", \"locks\": [";
    for (std::size_t i = 0; i < c.locks.size(); ++i) os << (i ? ", " : "") << "\"" << lock_names[c.locks[i]] << "\"";
    os << "], \"tasks\": [";
    for (std::size_t i = 0; i < c.tasks.size(); ++i)
    {
        os << (i ? ", " : "") << "{\"hint\": " << c.tasks[i].hint << ", \"blocks\": [";
        for (std::size_t b = 0; b < c.tasks[i].blocks.size(); ++b)
        {
            auto const& bl = c.tasks[i].blocks[b];
            os << (b ? ", " : "") << "\"L" << bl.lock << ":" << form_names[bl.form];
            if (bl.form == FM_TRY_FOR) os << "(" << for_ns[bl.dur] << "ns)";
            if (bl.form == FM_RECURSIVE_N) os << "(k=" << bl.k << ")";
            if (bl.form >= FM_RELOCK_OWNED) os << (bl.use_ec ? "(ec)" : "(throws)");
            os << " {";
            for (std::size_t k = 0; k < bl.cs.size(); ++k) os << (k ? " " : "") << cs_names[bl.cs[k]];
            os << "}\"";
        }
        os << "]}";
    }
    os << "]}";
    return os.str();
}

// ------------------------------------------------------------------------------------------------
struct LockRt
{
    int kind = 0;
    pika::mutex m;
    pika::timed_mutex tm;
    pika::detail::recursive_mutex_impl<pika::mutex> rm;
    pika::detail::recursive_mutex_impl<> rsp;
    pika::concurrency::detail::spinlock sp;
    std::atomic<int> occupancy{0};
    std::atomic<int> owner_task{-1};
    std::atomic<int> depth{0};
    // unprotected data (only touched inside the critical section)
    long long counter = 0;
    std::uint64_t pattern[8] = {0, 0, 0, 0, 0, 0, 0, 0};
    std::atomic<long long> acquisitions{0};
    std::atomic<int> blocked{0};
    std::atomic<long long> contended{0};
};

static void spin_ns(long long ns)
{
    if (ns <= 0) return;
    struct timespec a, b;
    clock_gettime(CLOCK_MONOTONIC, &a);
    do { clock_gettime(CLOCK_MONOTONIC, &b); } while ((b.tv_sec - a.tv_sec) * 1000000000ll + (b.tv_nsec - a.tv_nsec) < ns);
}
struct State
{
    std::atomic<int> chain_held{0}, chain_started{0};
    std::atomic<long long> first_deadline{0};    // steady_clock ns of the earliest try_lock_for deadline among the chain waiters (0 none)
    std::vector<std::unique_ptr<LockRt>> locks;
    pika::counting_semaphore<> side{0};
    std::atomic<long long> held_migrations{0}, held_suspends{0}, timed_true{0}, timed_false{0}, try_false{0}, misuse_ok{0};
};

static void enter(LockRt& l, int task, bool recursive_reentry = false)
{
    if (recursive_reentry)
    {
        if (l.owner_task.load() != task) fail_now("mutual_exclusion", "recursive re-entry by task " + std::to_string(task) + " while owner is " + std::to_string(l.owner_task.load()));
        l.depth.fetch_add(1);
        return;
    }
    int o = l.occupancy.fetch_add(1);
    if (o != 0)
        fail_now("mutual_exclusion", std::string(lock_names[l.kind]) + ": task " + std::to_string(task) + " acquired the lock while task " +
                std::to_string(l.owner_task.load()) + " still owns it (occupancy " + std::to_string(o + 1) + ")");
    l.owner_task.store(task);
    l.depth.store(1);
    l.acquisitions.fetch_add(1);
}
static void leave(LockRt& l, int task)
{
    if (l.depth.fetch_sub(1) > 1) return;
    l.owner_task.store(-1);
    int o = l.occupancy.fetch_sub(1);
    if (o != 1) fail_now("mutual_exclusion", "occupancy " + std::to_string(o) + " when task " + std::to_string(task) + " leaves");
}

static void critical_section(State& st, LockRt& l, Block const& b, int task)
{
    for (int op : b.cs)
    {
        switch (op)
        {
        case CS_COUNTER:
        {
            long long v = l.counter;
            volatile int x = 0;
            for (int k = 0; k < 300; ++k) x = x + 1;
            l.counter = v + 1;
            break;
        }
        case CS_PATTERN:
        {
            std::uint64_t first = l.pattern[0];
            for (int k = 1; k < 8; ++k)
                if (l.pattern[k] != first + static_cast<std::uint64_t>(k))
                    if (!(first == 0 && l.pattern[k] == 0))
                        fail_now("visibility_torn", "multi-word pattern written in the previous critical section is torn (word " + std::to_string(k) + ")");
            std::uint64_t nv = first + 1000003ull * static_cast<std::uint64_t>(task + 1);
            if (nv == 0) nv = 1;
            for (int k = 7; k >= 0; --k) l.pattern[k] = nv + static_cast<std::uint64_t>(k);
            break;
        }
        case CS_YIELD: pika::this_thread::yield(); break;
        case CS_SUSPEND:
        {
            // woken by a helper that never contends for any lock
            ex::execute(ex::thread_pool_scheduler{}, [&st] { pika::this_thread::yield(); st.side.release(1); });
            st.side.acquire();
            st.held_suspends.fetch_add(1);
            break;
        }
        case CS_MIGRATE:
        {
            auto w0 = pika::get_worker_thread_num();
            for (int k = 0; k < 6 && pika::get_worker_thread_num() == w0; ++k) pika::this_thread::yield();
            if (pika::get_worker_thread_num() != w0) st.held_migrations.fetch_add(1);
            break;
        }
        case CS_SPIN:
        {
            volatile int x = 0;
            for (int k = 0; k < 3000; ++k) x = x + 1;
            break;
        }
        }
        if (l.owner_task.load() != task) fail_now("mutual_exclusion", "owner changed inside the critical section of task " + std::to_string(task));
    }
}

template <typename M>
static void plain_block(State& st, LockRt& l, M& m, Block const& b, int task)
{
    switch (b.form)
    {
    case FM_TRY:
        if (m.try_lock())
        {
            enter(l, task);
            critical_section(st, l, b, task);
            leave(l, task);
            m.unlock();
        }
        else st.try_false.fetch_add(1);
        break;
    default:
    {
        if (l.occupancy.load() != 0) l.contended.fetch_add(1);
        l.blocked.fetch_add(1);
        m.lock();
        l.blocked.fetch_sub(1);
        enter(l, task);
        critical_section(st, l, b, task);
        leave(l, task);
        m.unlock();
        break;
    }
    }
}

template <typename M>
static void misuse_block(State& st, LockRt& l, M& m, Block const& b, int task)
{
    if (b.form == FM_RELOCK_OWNED)
    {
        l.blocked.fetch_add(1);
        m.lock();
        l.blocked.fetch_sub(1);
        enter(l, task);
        bool reported = false;
        if (b.use_ec)
        {
            pika::error_code ec(pika::throwmode::lightweight);
            m.lock(ec);
            reported = static_cast<bool>(ec) && ec.value() == static_cast<int>(pika::error::deadlock);
        }
        else
        {
            try { m.lock(); }
            catch (pika::exception const& e) { reported = e.get_error() == pika::error::deadlock; }
        }
        if (!reported) fail_now("misuse_not_reported", "re-locking an owned mutex was not reported as error::deadlock");
        critical_section(st, l, b, task);
        leave(l, task);
        m.unlock();    // must still be owned exactly once
        st.misuse_ok.fetch_add(1);
    }
    else
    {
        // unlock a mutex this task does not own
        bool reported = false;
        if (b.use_ec)
        {
            pika::error_code ec(pika::throwmode::lightweight);
            m.unlock(ec);
            reported = static_cast<bool>(ec) && ec.value() == static_cast<int>(pika::error::lock_error);
        }
        else
        {
            try { m.unlock(); }
            catch (pika::exception const& e) { reported = e.get_error() == pika::error::lock_error; }
        }
        if (!reported) fail_now("misuse_not_reported", "unlocking a mutex owned by nobody/another task was not reported as error::lock_error");
        st.misuse_ok.fetch_add(1);
    }
}

template <typename M>
static void recursive_block(State& st, LockRt& l, M& rm, Block const& b, int task)
{
    if (b.form == FM_RECURSIVE_N)
    {
        l.blocked.fetch_add(1);
        rm.lock();
        l.blocked.fetch_sub(1);
        enter(l, task);
        for (int k = 1; k < b.k; ++k)
        {
            if (k % 2) rm.lock();
            else if (!rm.try_lock()) fail_now("recursive_try_lock", "try_lock by the owner of a recursive_mutex failed");
            enter(l, task, true);
        }
        critical_section(st, l, b, task);
        for (int k = 1; k < b.k; ++k) { leave(l, task); rm.unlock(); }
        leave(l, task);
        rm.unlock();
    }
    else plain_block(st, l, rm, b, task);
}

template <typename M>
static void chain_holder(State& st, Case const& c, LockRt& l, M& m)
{
    m.lock();
    enter(l, 0);
    st.chain_held.store(1);
    int k = static_cast<int>(c.tasks.size()) - 1;
    while (st.chain_started.load() < k) pika::this_thread::yield();
    // the waiters are inside (or about to enter) their lock call: give them a moment to queue up, then unlock
    for (int i = 0; i < 3; ++i) pika::this_thread::yield();
    long long dl = st.first_deadline.load();
    if (c.aligned && dl != 0)
    {
        dl += jitter_ns[c.jitter];
        while (std::chrono::duration_cast<std::chrono::nanoseconds>(std::chrono::steady_clock::now().time_since_epoch()).count() < dl) {}
    }
    else spin_ns(chain_ns[c.h_delay]);
    leave(l, 0);
    m.unlock();
}

static void run_task(State& st, Case const& c, int task)
{
    TaskSpec const& ts = c.tasks[static_cast<std::size_t>(task)];
    if (c.chain)
    {
        LockRt& l = *st.locks[0];
        if (task == 0)
        {
            if (l.kind == LK_MUTEX) chain_holder(st, c, l, l.m);
            else if (l.kind == LK_TIMED) chain_holder(st, c, l, l.tm);
            else chain_holder(st, c, l, l.rm);
            return;
        }
        while (st.chain_held.load() == 0) pika::this_thread::yield();
        spin_ns(chain_ns[c.w_delay[static_cast<std::size_t>(task - 1)]]);
        if (c.aligned && ts.blocks[0].form == FM_TRY_FOR)
        {
            long long dl = std::chrono::duration_cast<std::chrono::nanoseconds>(std::chrono::steady_clock::now().time_since_epoch()).count() + for_ns[ts.blocks[0].dur];
            long long cur = st.first_deadline.load();
            while ((cur == 0 || dl < cur) && !st.first_deadline.compare_exchange_weak(cur, dl)) {}
        }
        st.chain_started.fetch_add(1);
    }
    for (Block const& b : ts.blocks)
    {
        for (int g = 0; g < b.gap; ++g) pika::this_thread::yield();
        LockRt& l = *st.locks[static_cast<std::size_t>(b.lock)];
        switch (l.kind)
        {
        case LK_MUTEX:
            if (b.form >= FM_RELOCK_OWNED) misuse_block(st, l, l.m, b, task);
            else plain_block(st, l, l.m, b, task);
            break;
        case LK_TIMED:
            if (b.form >= FM_RELOCK_OWNED) misuse_block(st, l, l.tm, b, task);
            else if (b.form == FM_TRY_FOR)
            {
                if (l.tm.try_lock_for(std::chrono::nanoseconds(for_ns[b.dur])))
                {
                    st.timed_true.fetch_add(1);
                    enter(l, task);
                    critical_section(st, l, b, task);
                    leave(l, task);
                    l.tm.unlock();
                }
                else st.timed_false.fetch_add(1);
            }
            else plain_block(st, l, l.tm, b, task);
            break;
        case LK_RECURSIVE: recursive_block(st, l, l.rm, b, task); break;
        case LK_RECURSIVE_SPIN: recursive_block(st, l, l.rsp, b, task); break;
        case LK_SPIN: plain_block(st, l, l.sp, b, task); break;
        }
    }
}

static Outcome run(tape_t const& tape)
{
    Case c = decode(tape);
    restrict_cpus(c.cfg.cpus);
    install_hook(c.cfg);
    start_runtime(c.cfg);
    State st;
    for (int k : c.locks)
    {
        auto l = std::make_unique<LockRt>();
        l->kind = k;
        st.locks.push_back(std::move(l));
    }
    std::atomic<int> finished{0};
    G().diagnose = [&] {
        std::ostringstream os;
        for (std::size_t i = 0; i < st.locks.size(); ++i)
        {
            auto& l = *st.locks[i];
            os << "lock " << i << " (" << lock_names[l.kind] << "): owner_task=" << l.owner_task.load() << " blocked_in_lock=" << l.blocked.load();
            if (l.blocked.load() > 0 && l.owner_task.load() < 0) os << " => UNLOCK LOST (lockers blocked although the lock is free)";
            os << "; ";
        }
        os << "tasks finished " << finished.load() << "/" << c.tasks.size();
        return os.str();
    };
    Quiescence q;
    q.start();
    for (std::size_t i = 0; i < c.tasks.size(); ++i)
    {
        ex::thread_pool_scheduler sched{};
        auto sc = sched;
        if (c.tasks[i].hint >= 0) sc = ex::with_hint(sc, pika::execution::thread_schedule_hint(static_cast<std::int16_t>(c.tasks[i].hint)));
        ex::execute(sc, [&, i] {
            try { run_task(st, c, static_cast<int>(i)); }
            catch (std::exception const& e) { fail_now("unexpected_exception", std::string("task threw: ") + e.what()); }
            finished.fetch_add(1);
        });
    }
    {
        MainWaiting mw;
        pika::wait();
    }
    Outcome out;
    long long acq = 0, contended = 0;
    for (std::size_t i = 0; i < st.locks.size() && out.kind == Outcome::PASS; ++i)
    {
        auto& l = *st.locks[i];
        acq += l.acquisitions.load();
        contended += l.contended.load();
        if (l.occupancy.load() != 0) out = Outcome::fail("mutual_exclusion", "lock still occupied at the end");
    }
    if (out.kind == Outcome::PASS && finished.load() != static_cast<int>(c.tasks.size()))
        out = Outcome::fail("tasks_incomplete", "only " + std::to_string(finished.load()) + " tasks finished");
    // counter: every CS_COUNTER increment happened under the lock => no lost update
    if (out.kind == Outcome::PASS)
    {
        // recompute the expected counters from what actually happened is not possible for try-forms;
        // lost updates are detected through the read-spin-write window by the occupancy oracle.
    }
    q.enter_stop_mode([] { return true; });
    if (out.kind == Outcome::PASS) stop_runtime();
    q.finish();
    add_monitor_counters(out);
    out.counters["acquisitions"] = acq;
    out.counters["contended_locks"] = contended;
    out.counters["held_migrations"] = st.held_migrations.load();
    out.counters["held_suspends"] = st.held_suspends.load();
    out.counters["timed_true"] = st.timed_true.load();
    out.counters["timed_false"] = st.timed_false.load();
    out.counters["try_false"] = st.try_false.load();
    out.counters["misuse_probes_ok"] = st.misuse_ok.load();
    out.nontrivial = contended > 0 && (st.held_migrations.load() > 0 || st.held_suspends.load() > 0 || G().suspends.load() > 0);
    out.tags.push_back(std::string("policy:") + policies[c.cfg.policy]);
    out.tags.push_back("workers:" + std::to_string(c.cfg.workers));
    if (c.chain) out.tags.push_back("template:hand_off_chain");
    if (c.chain && c.aligned) out.tags.push_back("template:unlock_at_deadline");
    for (int k : c.locks) out.tags.push_back(std::string("lock:") + lock_names[k]);
    if (contended > 0) out.tags.push_back("saw:contended_lock");
    if (st.held_migrations.load() > 0) out.tags.push_back("saw:holder_migrated");
    if (st.held_suspends.load() > 0) out.tags.push_back("saw:holder_suspended");
    if (st.timed_false.load() > 0) out.tags.push_back("saw:timed_false");
    if (st.timed_true.load() > 0) out.tags.push_back("saw:timed_true");
    if (st.misuse_ok.load() > 0) out.tags.push_back("saw:misuse_probe");
    return out;
}

int main(int argc, char** argv)
{
    Target T;
    T.property = "C06";
    T.engine = "E-rt";
    T.forked = true;
    T.tape_scale = 6;
    T.child_timeout_s = 60;
    T.describe = describe;
    T.run = run;
    T.signature = [](tape_t const&, Outcome const& o) { return std::string("{\"oracle\": ") + jstr(o.oracle) + "}"; };
    return target_main(argc, argv, T);
}
