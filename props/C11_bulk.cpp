// C11 — bulk calls f once per index, then completes once.   Engine: E-rt.
#include "rt.hpp"

#include <pika/execution.hpp>
#include <pika/semaphore.hpp>

#include <memory>
#include <set>

using namespace vf;
using namespace vf::rt;

enum ShapeT { SH_INT, SH_UNSIGNED, SH_SIZE_T, SH_LONG, SH_COUNT };
static char const* const shape_names[] = {"int", "unsigned", "std::size_t", "long"};
enum Pred { PR_TRANSFER_JUST, PR_SCHEDULE_THEN, PR_ON_OTHER_TASK, PR_GENERIC_INLINE };
static char const* const pred_names[] = {"transfer_just(pool)", "schedule(pool)|then", "continues_on(pool) after a task", "just (generic bulk, no pool)"};

struct Case
{
    RtConfig cfg;
    int shape_t = 0;
    unsigned long long n = 0;
    bool huge = false;
    int pred = 0;
    int nvals = 0;
    std::vector<unsigned long long> throwing;
    int hint = -1;
    long long avoided = 0;
    // bulk runs on a second pool created through the resource partitioner: the default pool keeps `default_size` workers (0: one pool only)
    int default_size = 0;
};

static Case decode(tape_t const& tape)
{
    Tape t(tape);
    Case c;
    c.cfg = decode_config(t, {S_IQ_POP_LEFT, S_IQ_POP_RIGHT, S_SL_AFTER_RUN, S_DO_YIELD});
    unsigned W = static_cast<unsigned>(c.cfg.workers);
    c.shape_t = static_cast<int>(t.below(SH_COUNT));
    char const* e = std::getenv("VERIF_AVOID");
    bool avoid_huge = e && std::strstr(e, "bulk_huge_shape");
    int cls = t.weighted({5, 5, 5, 3, 1});
    switch (cls)
    {
    case 0: c.n = t.below(4); break;                                                    // 0,1,2,3
    case 1: c.n = static_cast<unsigned long long>(W) * t.pick({1u, 2u, 8u, 16u}) + t.pick({0u, 1u, 0xffffffffu /* -1 */}); if (c.n > 0xfffffff0ull) c.n = W; break;    // around worker-count / 8W boundaries
    case 2: { unsigned k = 2 + t.below(19); c.n = (1ull << k) + t.pick({0ull, 1ull, ~0ull}); break; }    // 2^k-1, 2^k, 2^k+1 up to 2^20
    case 3: c.n = 1 + t.below(200000); break;
    default:
        c.huge = true;
        switch (c.shape_t)
        {
        case SH_INT: c.n = 0x7fffffffull; break;
        case SH_UNSIGNED: c.n = t.pick({0x80000007ull, 0xffffffffull}); break;
        default: c.n = t.pick({0x100000005ull, 0x80000007ull, 0x7fffffffull}); break;
        }
        if (avoid_huge) { c.huge = false; c.n = 1 + t.below(200000); c.avoided = 1; }
        break;
    }
    c.pred = t.weighted({4, 3, 2, 2});
    c.nvals = static_cast<int>(t.below(3));
    int nthrow = c.huge ? 0 : t.weighted({5, 2, 1, 1});
    for (int i = 0; i < nthrow && c.n > 0; ++i)
    {
        unsigned long long idx = t.pick({0ull, 1ull, 2ull, 3ull}) == 0 ? c.n - 1 : t.below(static_cast<std::uint32_t>(std::min<unsigned long long>(c.n, 0xffffffffull)));
        c.throwing.push_back(idx);
    }
    c.hint = t.chance(1, 3) ? static_cast<int>(t.below(W)) : -1;
    if (W >= 2 && !c.huge && t.chance(1, 3))
    {
        c.default_size = 1 + static_cast<int>(t.below(W - 1));
        if (c.hint >= 0) c.hint = c.hint % (static_cast<int>(W) - c.default_size);
    }
    return c;
}

static std::string describe(tape_t const& tape)
{
    Case c = decode(tape);
    std::ostringstream os;
    os << "{\"config\": " << c.cfg.describe() << ", \"shape_type\": \"" << shape_names[c.shape_t] << "\", \"n\": " << c.n << ", \"predecessor\": \"" << pred_names[c.pred]
       << "\", \"bulk_on_second_pool_after_default_pool_of\": " << c.default_size << ", \"values\": " << c.nvals << ", \"throwing_indices\": [";
    for (std::size_t i = 0; i < c.throwing.size(); ++i) os << (i ? "," : "") << c.throwing[i];
    os << "], \"hint\": " << c.hint << "}";
    return os.str();
}

struct BulkErr
{
    unsigned long long idx;
};

struct World
{
    unsigned long long n = 0;
    bool huge = false;
    std::unique_ptr<std::atomic<unsigned char>[]> seen;
    // sharded by worker so that billions of calls do not serialise on one cache line
    struct alignas(64) Shard
    {
        std::atomic<unsigned long long> calls{0}, sum{0};
        std::atomic<long long> in_flight{0};
    };
    Shard shard[64];
    static Shard& my(World& w)
    {
        std::size_t k = pika::get_worker_thread_num();
        return w.shard[k == std::size_t(-1) ? 63 : (k & 63)];
    }
    unsigned long long total_calls() const { unsigned long long t = 0; for (auto const& s : shard) t += s.calls.load(); return t; }
    unsigned long long total_sum() const { unsigned long long t = 0; for (auto const& s : shard) t += s.sum.load(); return t; }
    long long total_in_flight() const { long long t = 0; for (auto const& s : shard) t += s.in_flight.load(); return t; }
    std::atomic<int> duplicate{0}, out_of_range{0}, bad_values{0};
    std::atomic<unsigned long long> dup_idx{0}, oor_idx{0};
    std::set<unsigned long long> throwing;
    std::set<int> workers_seen;
    std::atomic<int> stolen{0};
    // terminal
    std::atomic<int> signals{0};
    int kind = -1;
    long long err_idx = -1;
    long long in_flight_at_signal = -1;
    int vals_ok = 1;
    pika::counting_semaphore<> done{0};
};

// value type whose moved-from state is observable: "values passed unchanged / forwarded" also means "not after having been moved from"
struct MV
{
    int v = 0;
    MV() = default;
    MV(int x) : v(x) {}
    MV(MV const&) = default;
    MV& operator=(MV const&) = default;
    MV(MV&& o) noexcept : v(o.v) { o.v = -1; }
    MV& operator=(MV&& o) noexcept { v = o.v; o.v = -1; return *this; }
    bool operator!=(int x) const { return v != x; }
};

template <typename Shape>
static void body(World& W, Shape i, MV const& a, MV const& b, int nvals)
{
    World::Shard& sh = World::my(W);
    sh.in_flight.fetch_add(1, std::memory_order_relaxed);
    unsigned long long u = static_cast<unsigned long long>(i);
    if ((nvals >= 1 && a != 11) || (nvals >= 2 && b != 22)) W.bad_values.store(1);
    if (i < 0 || u >= W.n) { W.out_of_range.store(1); W.oor_idx.store(u); }
    else if (!W.huge)
    {
        if (W.seen[u].exchange(1) != 0) { W.duplicate.store(1); W.dup_idx.store(u); }
    }
    sh.calls.fetch_add(1, std::memory_order_relaxed);
    if (W.huge) sh.sum.fetch_add(u, std::memory_order_relaxed);
    bool thr = !W.throwing.empty() && W.throwing.count(u);
    sh.in_flight.fetch_sub(1, std::memory_order_relaxed);
    if (thr) throw BulkErr{u};
}

struct Recv
{
    using is_receiver = void;
    World* w;
    int nvals;
    void fin(int kind)
    {
        w->in_flight_at_signal = w->total_in_flight();
        if (w->signals.fetch_add(1) == 0) w->kind = kind;
        w->done.release();
    }
    void set_value() && noexcept { fin(0); }
    void set_value(MV a) && noexcept { if (a != 11) w->vals_ok = 0; fin(0); }
    void set_value(MV a, MV b) && noexcept { if (a != 11 || b != 22) w->vals_ok = 0; fin(0); }
    void set_error(std::exception_ptr ep) && noexcept
    {
        try { std::rethrow_exception(ep); }
        catch (BulkErr const& e) { w->err_idx = static_cast<long long>(e.idx); }
        catch (...) { w->err_idx = -2; }
        fin(1);
    }
    void set_stopped() && noexcept { fin(2); }
};

template <typename Shape, typename Sched>
static void launch(World& W, Case const& c, Sched sched, Recv r)
{
    Shape n = static_cast<Shape>(c.n);
    int nv = c.nvals;
    auto go = [&](auto&& pred_sender) {
        // the operation state is intentionally leaked until the end of the case (heap), freed by the caller via unique_ptr
        if (nv == 0)
        {
            auto s = ex::bulk(std::forward<decltype(pred_sender)>(pred_sender), n, [&W](Shape i) { body<Shape>(W, i, MV(11), MV(22), 0); });
            auto* os = new auto(ex::connect(std::move(s), std::move(r)));
            ex::start(*os);
        }
    };
    (void) go;
    auto with_vals = [&](auto make0, auto make1, auto make2) {
        if (nv == 0)
        {
            auto s = ex::bulk(make0(), n, [&W](Shape i) { body<Shape>(W, i, MV(11), MV(22), 0); });
            auto* os = new auto(ex::connect(std::move(s), std::move(r)));
            ex::start(*os);
        }
        else if (nv == 1)
        {
            auto s = ex::bulk(make1(), n, [&W](Shape i, MV& a) { body<Shape>(W, i, a, MV(22), 1); });
            auto* os = new auto(ex::connect(std::move(s), std::move(r)));
            ex::start(*os);
        }
        else
        {
            auto s = ex::bulk(make2(), n, [&W](Shape i, MV& a, MV& b) { body<Shape>(W, i, a, b, 2); });
            auto* os = new auto(ex::connect(std::move(s), std::move(r)));
            ex::start(*os);
        }
    };
    switch (c.pred)
    {
    case PR_TRANSFER_JUST:
        with_vals([&] { return ex::transfer_just(sched); }, [&] { return ex::transfer_just(sched, MV(11)); }, [&] { return ex::transfer_just(sched, MV(11), MV(22)); });
        break;
    case PR_SCHEDULE_THEN:
        with_vals([&] { return ex::schedule(sched); }, [&] { return ex::then(ex::schedule(sched), [] { return MV(11); }); },
            [&] { return ex::continues_on(ex::just(MV(11), MV(22)), sched); });
        break;
    case PR_ON_OTHER_TASK:
        with_vals([&] { return ex::continues_on(ex::then(ex::schedule(ex::thread_pool_scheduler{}), [] { pika::this_thread::yield(); }), sched); },
            [&] { return ex::continues_on(ex::then(ex::schedule(ex::thread_pool_scheduler{}), [] { pika::this_thread::yield(); return MV(11); }), sched); },
            [&] { return ex::continues_on(ex::just(MV(11), MV(22)), sched); });
        break;
    default:
        with_vals([&] { return ex::just(); }, [&] { return ex::just(MV(11)); }, [&] { return ex::just(MV(11), MV(22)); });
        break;
    }
}

static Outcome run(tape_t const& tape)
{
    Case c = decode(tape);
    restrict_cpus(c.cfg.cpus);
    install_hook(c.cfg);
    pika::init_params ip;
    if (c.default_size > 0)
    {
        int dsz = c.default_size, total = c.cfg.workers;
        ip.rp_callback = [dsz, total](pika::resource::partitioner& rp, pika::program_options::variables_map const&) {
            std::vector<pika::resource::pu const*> pus;
            for (auto const& d : rp.sockets())
                for (auto const& co : d.cores())
                    for (auto const& p : co.pus()) pus.push_back(&p);
            rp.create_thread_pool("bulkpool");
            for (int k = dsz; k < total && static_cast<std::size_t>(k) < pus.size(); ++k) rp.add_resource(*pus[static_cast<std::size_t>(k)], "bulkpool");
        };
    }
    start_runtime(c.cfg, ip);
    auto Wp = std::make_unique<World>();
    World& W = *Wp;
    W.n = c.n;
    W.huge = c.huge;
    if (!c.huge) W.seen.reset(new std::atomic<unsigned char>[c.n + 1]());
    for (auto i : c.throwing) W.throwing.insert(i);
    G().stranded_after_samples = 100;
    Quiescence q;
    q.start();
    G().diagnose = [&] { return "bulk(n=" + std::to_string(c.n) + "): callbacks so far " + std::to_string(W.total_calls()) + ", receiver signals " + std::to_string(W.signals.load()); };
    ex::thread_pool_scheduler sched{};
    if (c.default_size > 0) sched = ex::thread_pool_scheduler{&pika::resource::get_thread_pool("bulkpool")};
    auto sc = sched;
    if (c.hint >= 0) sc = ex::with_hint(sc, pika::execution::thread_schedule_hint(static_cast<std::int16_t>(c.hint)));
    // no-progress detector for the huge-shape class only (DESIGN 3.4): zero callbacks and no signal for 10 s
    std::atomic<bool> stalled{false};
    std::thread stall;
    std::atomic<bool> stop_stall{false};
    if (c.huge)
    {
        stall = std::thread([&] {
            unsigned long long last = ~0ull;
            int same = 0;
            while (!stop_stall.load())
            {
                struct timespec ts { 0, 500000000 };
                nanosleep(&ts, nullptr);
                unsigned long long now = W.total_calls();
                if (W.signals.load() == 0 && now == last) ++same; else same = 0;
                last = now;
                if (same >= 20)
                    fail_now("bulk_stall", "bulk(n=" + std::to_string(c.n) + ", " + shape_names[c.shape_t] + ") made no progress for 10 s: " + std::to_string(now) +
                            " callbacks so far, receiver not signalled (the call does not return)");
            }
        });
    }
    Recv r{&W, c.nvals};
    switch (c.shape_t)
    {
    case SH_INT: launch<int>(W, c, sc, r); break;
    case SH_UNSIGNED: launch<unsigned>(W, c, sc, r); break;
    case SH_SIZE_T: launch<std::size_t>(W, c, sc, r); break;
    default: launch<long>(W, c, sc, r); break;
    }
    G().awaited_signal_missing = [&] { return W.signals.load() == 0; };
    {
        MainWaitingForSignal mw;
        W.done.acquire();
    }
    {
        MainWaiting mw;
        pika::wait();
    }
    stop_stall = true;
    if (stall.joinable()) stall.join();
    Outcome out;
    unsigned long long calls = W.total_calls();
    bool throwing = !c.throwing.empty();
    if (W.signals.load() != 1) out = Outcome::fail("signal_count", "receiver got " + std::to_string(W.signals.load()) + " signals");
    else if (W.in_flight_at_signal != 0) out = Outcome::fail("signal_before_last_call", "receiver was signalled while " + std::to_string(W.in_flight_at_signal) + " calls of f were still running");
    else if (W.out_of_range.load()) out = Outcome::fail("index_out_of_range", "f was called with index " + std::to_string(W.oor_idx.load()) + " outside [0," + std::to_string(c.n) + ")");
    else if (W.duplicate.load()) out = Outcome::fail("index_twice", "f was called twice for index " + std::to_string(W.dup_idx.load()));
    else if (W.bad_values.load() || !W.vals_ok) out = Outcome::fail("values_changed", "the predecessor's values were not passed unchanged");
    else if (throwing)
    {
        if (W.kind != 1) out = Outcome::fail("error_not_forwarded", "a call threw but the receiver got " + std::string(W.kind == 0 ? "a value" : "stopped"));
        else if (W.err_idx < 0 || !W.throwing.count(static_cast<unsigned long long>(W.err_idx))) out = Outcome::fail("wrong_error", "receiver got an error that none of the calls threw (id " + std::to_string(W.err_idx) + ")");
    }
    else if (W.kind != 0) out = Outcome::fail("unexpected_error", "no call threw but the receiver got channel " + std::to_string(W.kind));
    else if (calls != c.n)
        out = Outcome::fail("lost_indices", "f was called " + std::to_string(calls) + " times for n=" + std::to_string(c.n) + " (" + shape_names[c.shape_t] + "): " +
                std::to_string(static_cast<long long>(c.n - calls)) + " indices were never visited although the receiver got a value");
    else if (c.huge)
    {
        unsigned long long n = c.n, s = (n % 2 == 0) ? (n / 2) * (n - 1) : n * ((n - 1) / 2);
        if (W.total_sum() != s) out = Outcome::fail("lost_indices", "index sum mismatch for huge shape");
    }
    q.enter_stop_mode([] { return true; });
    stop_runtime();
    q.finish();
    add_monitor_counters(out);
    out.counters["calls"] = static_cast<long long>(std::min<unsigned long long>(calls, 1ull << 40));
    out.counters["avoided"] = c.avoided;
    out.nontrivial = (c.n > 8ull * static_cast<unsigned>(c.cfg.workers) && c.pred != PR_GENERIC_INLINE) || throwing;
    out.tags.push_back(std::string("shape:") + shape_names[c.shape_t]);
    out.tags.push_back(std::string("pred:") + pred_names[c.pred]);
    out.tags.push_back("workers:" + std::to_string(c.cfg.workers));
    if (c.default_size > 0) out.tags.push_back("has:bulk_on_second_pool");
    if (throwing) out.tags.push_back("has:throwing_index");
    if (c.huge) out.tags.push_back("class:huge_shape");
    if (c.n == 0) out.tags.push_back("class:n=0");
    return out;
}

int main(int argc, char** argv)
{
    Target T;
    T.property = "C11";
    T.engine = "E-rt";
    T.forked = true;
    T.tape_scale = 2;
    T.child_timeout_s = 90;
    T.describe = describe;
    T.run = run;
    T.signature = [](tape_t const& tape, Outcome const& o) {
        Case c = decode(tape);
        return std::string("{\"oracle\": ") + jstr(o.oracle) + ", \"class\": " + (c.huge ? "\"huge_shape\"" : "\"ordinary\"") + "}";
    };
    return target_main(argc, argv, T);
}
