// C18 — type-erased senders and functions behave like what they wrap.   Engine: E-seq (model based).
// Histories of construct / copy / move / assign / reset / swap / invoke (connect+start) over a few
// wrapper variables, compared with a reference model and with the un-erased original (differential).
#include "core.hpp"
#include "quarantine.hpp"    // poisoning quarantine allocator: use-after-free oracle for the whole process

#include <pika/execution.hpp>
#include <pika/functional/function.hpp>
#include <pika/functional/unique_function.hpp>

#include <memory>
#include <optional>

using namespace vf;
namespace ex = pika::execution::experimental;

// ---- ledger ---------------------------------------------------------------------------------------
static long long g_live = 0, g_double = 0, g_addr_violation = 0, g_constructed = 0;

// copies get a fresh ledger entry but remember their recipe; kept tiny so that the small kinds really
// fit pika's 24-byte inline buffer
template <std::size_t Pad, std::size_t Align, bool Copyable>
struct alignas(Align) Callable
{
    int recipe;
    short calls = 0;
    bool throws;
    unsigned char canary = 0x5A;
    unsigned char pad[Pad ? Pad : 1];

    Callable(int r, bool th) : recipe(r), throws(th) { born(); }
    Callable(Callable const& o) requires Copyable : recipe(o.recipe), calls(o.calls), throws(o.throws) { o.check(); born(); }
    Callable(Callable&& o) noexcept : recipe(o.recipe), calls(o.calls), throws(o.throws) { o.check(); born(); }
    Callable& operator=(Callable const&) = delete;
    ~Callable()
    {
        check();
        canary = 0;
        --g_live;
    }
    void born()
    {
        ++g_live;
        ++g_constructed;
        for (std::size_t i = 0; i < sizeof pad; ++i) pad[i] = static_cast<unsigned char>(recipe + static_cast<int>(i));
    }
    void check() const
    {
        if (canary != 0x5A) { ++g_double; return; }
        for (std::size_t i = 0; i < sizeof pad; ++i)
            if (pad[i] != static_cast<unsigned char>(recipe + static_cast<int>(i))) { ++g_double; return; }
    }
    int operator()(int x)
    {
        check();
        ++calls;
        if (throws) throw std::runtime_error("callable " + std::to_string(recipe));
        return recipe * 1000 + x * 7 + calls;
    }
};

// reference semantics of one stored object
struct MObj
{
    int recipe = 0;
    int calls = 0;
    bool throws = false;
    int kind = 0;
};

// kinds: (pad bytes, align, copyable, address sensitive).  sizeof(function storage) == 24.
//  0: tiny copyable   1: 24-byte-ish copyable  2: larger-than-buffer copyable  3: align 32 copyable
//  4: tiny move-only  5: big move-only         6: small address-sensitive copyable (F9 shape)
using K0 = Callable<0, 4, true>;      // 12 bytes: inline
using K1 = Callable<15, 8, true>;     // exactly 24 bytes: the boundary of the inline buffer
using K2 = Callable<100, 8, true>;    // heap
using K3 = Callable<8, 32, true>;     // over-aligned
using K4 = Callable<0, 4, false>;     // move-only, inline
using K5 = Callable<120, 8, false>;   // move-only, heap
static_assert(sizeof(K0) <= 24 && sizeof(K1) == 24 && sizeof(K2) > 24 && sizeof(K4) <= 24 && sizeof(K5) > 24, "size classes around pika's inline function buffer (3 pointers)");
// address-sensitive callable that fits the 24-byte inline buffer (the shape of a lambda capturing a
// std::list by value): remembers its own address and checks it on every use
struct K6
{
    void const* self;
    int recipe;
    short calls = 0;
    bool throws;
    unsigned char canary = 0x5A;
    K6(int r, bool th) : self(this), recipe(r), throws(th) { ++g_live; ++g_constructed; }
    K6(K6 const& o) : self(this), recipe(o.recipe), calls(o.calls), throws(o.throws) { o.check(); ++g_live; ++g_constructed; }
    K6(K6&& o) noexcept : self(this), recipe(o.recipe), calls(o.calls), throws(o.throws) { o.check(); ++g_live; ++g_constructed; }
    K6& operator=(K6 const&) = delete;
    ~K6() { check(); if (canary != 0x5A) ++g_double; canary = 0; --g_live; }
    void check() const
    {
        if (canary != 0x5A) { ++g_double; return; }
        if (self != this) ++g_addr_violation;
    }
    int operator()(int x)
    {
        check();
        ++calls;
        if (throws) throw std::runtime_error("callable");
        return recipe * 1000 + x * 7 + calls;
    }
};
static_assert(sizeof(K6) <= 24, "must fit pika's inline function buffer");

using Fn = pika::util::detail::function<int(int)>;
using UFn = pika::util::detail::unique_function<int(int)>;

enum Cmd { F_ASSIGN_OBJ, F_COPY_CONSTRUCT, F_MOVE_CONSTRUCT, F_COPY_ASSIGN, F_MOVE_ASSIGN, F_RESET, F_SWAP, F_INVOKE, F_CHECK_EMPTY, F_DEFAULT, F_CMD_COUNT };
static char const* const cmd_names[] = {"assign_object", "copy_construct", "move_construct", "copy_assign", "move_assign", "reset", "swap", "invoke", "check_empty", "default_construct"};

struct Step
{
    int cmd, a, b, kind, recipe, arg;
    bool throws;
    bool uniq;    // operate on the unique_function variables instead of function
};
struct Case
{
    int mode = 0;    // 0 functions, 1 senders
    std::vector<Step> steps;
    long long avoided = 0;
};
static int const NV = 4;

static Case decode(Tape& t)
{
    Case c;
    char const* e = std::getenv("VERIF_AVOID");
    bool avoid_addr = e && std::strstr(e, "function_memcpy_relocation");
    c.mode = t.weighted({3, 2});
    int n = 1 + static_cast<int>(t.below(28));
    int recipe = 1;
    for (int i = 0; i < n; ++i)
    {
        Step s;
        s.cmd = t.weighted({6, 2, 2, 3, 3, 1, 2, 6, 2, 1});
        s.a = static_cast<int>(t.below(NV));
        s.b = static_cast<int>(t.below(NV));
        s.kind = t.weighted({2, 2, 2, 1, 1, 1, 2});
        if (avoid_addr && s.kind == 6) { s.kind = 1; ++c.avoided; }
        s.recipe = recipe++;
        s.arg = static_cast<int>(t.below(100));
        s.throws = t.chance(1, 8);
        s.uniq = t.chance(1, 3);
        if (!s.uniq && (s.kind == 4 || s.kind == 5)) s.kind -= 4;    // move-only callables need unique_function
        if (s.uniq && (s.cmd == F_COPY_CONSTRUCT || s.cmd == F_COPY_ASSIGN)) s.cmd = s.cmd == F_COPY_CONSTRUCT ? F_MOVE_CONSTRUCT : F_MOVE_ASSIGN;
        if ((s.cmd == F_MOVE_CONSTRUCT || s.cmd == F_COPY_CONSTRUCT) && s.a == s.b) s.cmd = F_DEFAULT;
        if (s.cmd == F_MOVE_ASSIGN && s.a == s.b) s.cmd = F_COPY_ASSIGN;
        if (s.uniq && s.cmd == F_COPY_ASSIGN) s.cmd = F_INVOKE;
        c.steps.push_back(s);
    }
    return c;
}

static std::string describe(tape_t const& tape)
{
    Tape t(tape);
    Case c = decode(t);
    std::ostringstream os;
    static char const* const kn[] = {"tiny", "small(<=24B)", "big(>24B)", "align32", "tiny_move_only", "big_move_only", "small_address_sensitive"};
    os << "{\"wrappers\": \"" << (c.mode == 0 ? "function/unique_function" : "any_sender/unique_any_sender") << "\", \"history\": [";
    for (std::size_t i = 0; i < c.steps.size(); ++i)
    {
        auto const& s = c.steps[i];
        os << (i ? ", " : "") << "\"" << (s.uniq ? "u" : "f") << s.a << " " << cmd_names[s.cmd];
        if (s.cmd == F_ASSIGN_OBJ) os << " " << kn[s.kind] << "#" << s.recipe << (s.throws ? " throwing" : "");
        if (s.cmd == F_COPY_CONSTRUCT || s.cmd == F_MOVE_CONSTRUCT || s.cmd == F_COPY_ASSIGN || s.cmd == F_MOVE_ASSIGN || s.cmd == F_SWAP) os << " <- " << (s.uniq ? "u" : "f") << s.b;
        if (s.cmd == F_INVOKE) os << "(" << s.arg << ")";
        os << "\"";
    }
    os << "]}";
    return os.str();
}

// ---- function mode -----------------------------------------------------------------------------------
template <typename W>
static void assign_obj(W& w, Step const& s)
{
    switch (s.kind)
    {
    case 0: w = K0(s.recipe, s.throws); break;
    case 1: w = K1(s.recipe, s.throws); break;
    case 2: w = K2(s.recipe, s.throws); break;
    case 3: w = K3(s.recipe, s.throws); break;
    case 6: w = K6(s.recipe, s.throws); break;
    default:
        if constexpr (std::is_same_v<W, UFn>)
        {
            if (s.kind == 4) w = K4(s.recipe, s.throws); else w = K5(s.recipe, s.throws);
        }
        break;
    }
}

template <typename W>
static std::string run_fn_history(std::vector<Step> const& steps, bool uniq, bool& nt_assign_nonempty, bool& nt_big, bool& nt_small)
{
    std::optional<W> v[NV];
    std::optional<MObj> m[NV];
    bool alive[NV] = {};
    for (int i = 0; i < NV; ++i) { v[i].emplace(); alive[i] = true; }
    int step = 0;
    for (Step const& s : steps)
    {
        ++step;
        if (s.uniq != uniq) continue;
        int a = s.a, b = s.b;
        auto where = [&] { return "step " + std::to_string(step) + " (" + cmd_names[s.cmd] + " on " + (uniq ? "u" : "f") + std::to_string(a) + "): "; };
        switch (s.cmd)
        {
        case F_ASSIGN_OBJ:
            if (m[a]) nt_assign_nonempty = true;
            if (s.kind == 2 || s.kind == 5) nt_big = true; else nt_small = true;
            assign_obj(*v[a], s);
            m[a] = MObj{s.recipe, 0, s.throws, s.kind};
            break;
        case F_DEFAULT:
            v[a].reset();
            v[a].emplace();
            m[a].reset();
            break;
        case F_COPY_CONSTRUCT:
            if constexpr (std::is_copy_constructible_v<W>)
            {
                v[a].reset();
                v[a].emplace(*v[b]);
                m[a] = m[b];
            }
            break;
        case F_MOVE_CONSTRUCT:
            v[a].reset();
            v[a].emplace(std::move(*v[b]));
            m[a] = m[b];
            m[b].reset();    // moved-from wrappers report empty
            break;
        case F_COPY_ASSIGN:
            if constexpr (std::is_copy_assignable_v<W>)
            {
                if (m[a] && a != b) nt_assign_nonempty = true;
                *v[a] = *v[b];
                if (a != b) m[a] = m[b];
            }
            break;
        case F_MOVE_ASSIGN:
            if (a == b) break;
            if (m[a]) nt_assign_nonempty = true;
            *v[a] = std::move(*v[b]);
            m[a] = m[b];
            m[b].reset();
            break;
        case F_RESET:
            v[a]->reset();
            m[a].reset();
            break;
        case F_SWAP:
            v[a]->swap(*v[b]);
            std::swap(m[a], m[b]);
            break;
        case F_INVOKE:
        {
            if (!m[a])
            {
                bool reported = false;
                try { (*v[a])(s.arg); }
                catch (pika::exception const& e) { reported = e.get_error() == pika::error::bad_function_call; }
                catch (...) {}
                if (!reported) return where() + "calling an empty wrapper did not raise bad_function_call";
                break;
            }
            // differential: what the un-erased original would do in the same state
            int expected_calls = m[a]->calls + 1;
            bool got_throw = false;
            int got = 0;
            try { got = (*v[a])(s.arg); }
            catch (std::runtime_error const&) { got_throw = true; }
            m[a]->calls = expected_calls;
            if (m[a]->throws != got_throw) return where() + "wrapped callable " + (got_throw ? "threw" : "did not throw") + " but the original " + (m[a]->throws ? "throws" : "does not");
            if (!got_throw)
            {
                int want = m[a]->recipe * 1000 + s.arg * 7 + expected_calls;
                if (got != want) return where() + "wrapped callable returned " + std::to_string(got) + ", the original returns " + std::to_string(want) + " (copies must be independent, state must follow the object)";
            }
            break;
        }
        case F_CHECK_EMPTY: break;
        }
        for (int i = 0; i < NV; ++i)
        {
            if (v[i]->empty() != !m[i].has_value() || static_cast<bool>(*v[i]) != m[i].has_value())
                return where() + "wrapper " + std::to_string(i) + " reports empty()=" + std::to_string(v[i]->empty()) + " but the model says " + std::to_string(!m[i].has_value());
        }
        if (g_double) return where() + "an erased object was used or destroyed after its destruction";
        if (g_addr_violation) return where() + "an address-sensitive callable (stores its own address on construction) found itself at a different address: the wrapper relocated it without calling its move constructor";
    }
    (void) alive;
    return "";
}

// ---- sender mode ---------------------------------------------------------------------------------------
struct SP
{
    long long v;
};
struct Rec
{
    int kind = -1;
    long long v = 0;
    int signals = 0;
};
struct RecvS
{
    using is_receiver = void;
    Rec* r;
    void set_value(SP p) && noexcept { ++r->signals; r->kind = 0; r->v = p.v; }
    void set_error(std::exception_ptr) && noexcept { ++r->signals; r->kind = 1; }
    void set_stopped() && noexcept { ++r->signals; r->kind = 2; }
};
template <std::size_t Pad>
struct TSender
{
    using is_sender = void;
    template <template <typename...> class Tuple, template <typename...> class Variant>
    using value_types = Variant<Tuple<SP>>;
    template <template <typename...> class Variant>
    using error_types = Variant<std::exception_ptr>;
    static constexpr bool sends_done = true;
    using completion_signatures = ex::completion_signatures<ex::set_value_t(SP), ex::set_error_t(std::exception_ptr), ex::set_stopped_t()>;
    int channel;
    long long v;
    int canary = 0x600D;
    unsigned char pad[Pad ? Pad : 1];
    TSender(int c, long long x) : channel(c), v(x) { ++g_live; ++g_constructed; }
    TSender(TSender const& o) : channel(o.channel), v(o.v) { o.chk(); ++g_live; ++g_constructed; }
    TSender(TSender&& o) noexcept : channel(o.channel), v(o.v) { o.chk(); ++g_live; ++g_constructed; }
    ~TSender() { chk(); canary = 0xDEAD; --g_live; }
    void chk() const { if (canary != 0x600D) ++g_double; }
    template <typename R>
    struct op
    {
        std::decay_t<R> r;
        int channel;
        long long v;
        void start() & noexcept
        {
            if (channel == 0) ex::set_value(std::move(r), SP{v});
            else if (channel == 1) ex::set_error(std::move(r), std::make_exception_ptr(std::runtime_error("e")));
            else ex::set_stopped(std::move(r));
        }
    };
    template <typename R>
    op<R> connect(R&& r) const& { chk(); return {std::forward<R>(r), channel, v}; }
    template <typename R>
    op<R> connect(R&& r) && { chk(); return {std::forward<R>(r), channel, v}; }
};
struct MSend
{
    int channel;
    long long v;
};

template <typename W, bool Copyable>
static std::string run_sender_history(std::vector<Step> const& steps, bool uniq, bool& nt_assign_nonempty, bool& nt_big, bool& nt_small)
{
    std::optional<W> v[NV];
    std::optional<MSend> m[NV];
    for (int i = 0; i < NV; ++i) v[i].emplace();
    int step = 0;
    for (Step const& s : steps)
    {
        ++step;
        if (s.uniq != uniq) continue;
        int a = s.a, b = s.b;
        auto where = [&] { return "step " + std::to_string(step) + " (" + cmd_names[s.cmd] + " on " + (uniq ? "unique_any_sender " : "any_sender ") + std::to_string(a) + "): "; };
        switch (s.cmd)
        {
        case F_ASSIGN_OBJ:
        {
            if (m[a]) nt_assign_nonempty = true;
            int ch = s.recipe % 3;
            if (s.kind == 2 || s.kind == 5) { nt_big = true; *v[a] = TSender<200>(ch, s.recipe); }
            else { nt_small = true; *v[a] = TSender<0>(ch, s.recipe); }
            m[a] = MSend{ch, s.recipe};
            break;
        }
        case F_DEFAULT: v[a].reset(); v[a].emplace(); m[a].reset(); break;
        case F_COPY_CONSTRUCT:
            if constexpr (Copyable) { v[a].reset(); v[a].emplace(*v[b]); m[a] = m[b]; }
            break;
        case F_MOVE_CONSTRUCT: v[a].reset(); v[a].emplace(std::move(*v[b])); m[a] = m[b]; m[b].reset(); break;
        case F_COPY_ASSIGN:
            if constexpr (Copyable) { if (m[a] && a != b) nt_assign_nonempty = true; *v[a] = *v[b]; if (a != b) m[a] = m[b]; }
            break;
        case F_MOVE_ASSIGN:
            if (a == b) break;
            if (m[a]) nt_assign_nonempty = true;
            *v[a] = std::move(*v[b]);
            m[a] = m[b];
            m[b].reset();
            break;
        case F_RESET: v[a]->reset(); m[a].reset(); break;
        case F_SWAP: { std::swap(*v[a], *v[b]); std::swap(m[a], m[b]); break; }
        case F_INVOKE:
        {
            Rec rec;
            bool lvalue = Copyable && (s.arg % 2 == 0);
            if (!m[a])
            {
                bool reported = false;
                try { auto os = ex::connect(std::move(*v[a]), RecvS{&rec}); ex::start(os); }
                catch (pika::exception const& e) { reported = e.get_error() == pika::error::bad_function_call; }
                catch (...) {}
                if (!reported) return where() + "connecting an empty wrapper did not raise the documented bad_function_call error";
                break;
            }
            if constexpr (Copyable)
            {
                if (lvalue) { auto os = ex::connect(*v[a], RecvS{&rec}); ex::start(os); }
                else { auto os = ex::connect(std::move(*v[a]), RecvS{&rec}); ex::start(os); }
            }
            else { auto os = ex::connect(std::move(*v[a]), RecvS{&rec}); ex::start(os); }
            MSend want = *m[a];
            if (!lvalue) m[a].reset();    // r-value connect leaves the wrapper empty
            if (rec.signals != 1) return where() + "receiver got " + std::to_string(rec.signals) + " signals";
            if (rec.kind != want.channel || (rec.kind == 0 && rec.v != want.v))
                return where() + "erased sender completed on channel " + std::to_string(rec.kind) + " value " + std::to_string(rec.v) + ", the original completes on channel " + std::to_string(want.channel) + " value " + std::to_string(want.v);
            break;
        }
        case F_CHECK_EMPTY: break;
        }
        for (int i = 0; i < NV; ++i)
            if (v[i]->empty() != !m[i].has_value() || static_cast<bool>(*v[i]) != m[i].has_value())
                return where() + "wrapper " + std::to_string(i) + " reports empty()=" + std::to_string(v[i]->empty()) + " but the model says " + std::to_string(!m[i].has_value());
        if (g_double) return where() + "an erased sender was used or destroyed after its destruction";
    }
    return "";
}

static Outcome run(tape_t const& tape)
{
    Tape t(tape);
    Case c = decode(t);
    vf::quarantine::enabled().store(true);
    bool nt_assign = false, nt_big = false, nt_small = false;
    std::string err;
    if (c.mode == 0)
    {
        err = run_fn_history<Fn>(c.steps, false, nt_assign, nt_big, nt_small);
        if (err.empty()) err = run_fn_history<UFn>(c.steps, true, nt_assign, nt_big, nt_small);
    }
    else
    {
        err = run_sender_history<ex::any_sender<SP>, true>(c.steps, false, nt_assign, nt_big, nt_small);
        if (err.empty()) err = run_sender_history<ex::unique_any_sender<SP>, false>(c.steps, true, nt_assign, nt_big, nt_small);
    }
    Outcome out;
    if (!err.empty())
    {
        char const* o = "differential_mismatch";
        if (err.find("address-sensitive") != std::string::npos) o = "relocated_without_move";
        else if (err.find("after its destruction") != std::string::npos) o = "lifetime";
        else if (err.find("empty") != std::string::npos) o = "empty_state";
        out = Outcome::fail(o, err);
    }
    else if (g_live != 0) out = Outcome::fail("lifetime", std::to_string(g_live) + " erased objects were never destroyed (or destroyed twice) by the end of the history; " + std::to_string(g_constructed) + " constructed");
    else
    {
        std::string qc = vf::quarantine::check();
        if (!qc.empty()) out = Outcome::fail("write_after_free", qc);
    }
    out.nontrivial = nt_assign && nt_big && nt_small;
    out.tags.push_back(c.mode == 0 ? "wrappers:function" : "wrappers:any_sender");
    out.counters["steps"] = static_cast<long long>(c.steps.size());
    out.counters["avoided"] = c.avoided;
    return out;
}

int main(int argc, char** argv)
{
    Target T;
    T.property = "C18";
    T.engine = "E-seq";
    T.forked = true;    // a wild pointer in a wrapper must not take the generator down
    T.tape_scale = 2;
    T.child_timeout_s = 20;
    T.describe = describe;
    T.run = run;
    T.signature = [](tape_t const&, Outcome const& o) { return std::string("{\"oracle\": ") + jstr(o.oracle) + "}"; };
    return target_main(argc, argv, T);
}
