// E-rt: real pika runtime inside a fresh child process.  Runtime configuration decoded from the
// tape, hook callback (observe + perturb), single-runner monitor, quiescence (deadlock) detector.
#pragma once
#include "core.hpp"
#include "sites.hpp"

#include <pika/execution.hpp>
#include <pika/init.hpp>
#include <pika/runtime.hpp>
#include <pika/runtime/runtime.hpp>
#include <pika/thread.hpp>
#include <pika/threading_base/detail/global_activity_count.hpp>

#include <sched.h>
#include <sys/syscall.h>
#include <unistd.h>
#include <time.h>

#include <atomic>
#include <cstdint>
#include <mutex>
#include <string>
#include <thread>
#include <vector>

namespace vf::rt {

    namespace ex = pika::execution::experimental;

    inline char const* const policies[8] = {"local-priority-fifo", "local-priority-lifo", "local", "static",
        "static-priority", "abp-priority-fifo", "abp-priority-lifo", "shared-priority"};

    // ---------------------------------------------------------------------------------------------
    struct Perturb
    {
        int site = 0;      // hook site id
        int period = 1;    // act on every period-th hit (per OS thread)
        int action = 0;    // 0 spin, 1 sched_yield, 2 nanosleep
        int dur = 0;       // index into durations
    };
    inline constexpr std::uint32_t dur_ns[] = {200, 1000, 5000, 20000, 100000, 500000, 2000000};

    struct RtConfig
    {
        int policy = 0;
        int workers = 1;
        int cpus = 0;          // 0 = all, else restrict the process to this many CPUs
        bool stealing = true;
        int max_terminated = 100;    // PIKA_THREAD_QUEUE_MAX_TERMINATED_THREADS analogue (ini)
        int init_threads = 10;
        int max_thread_count = 1000;
        int min_tasks_to_steal_pending = 0;
        int min_tasks_to_steal_staged = 0;
        int max_busy_loop_count = -1;    // -1 = default (2000)
        std::vector<Perturb> plan;
        std::vector<std::string> extra_ini;

        std::string describe() const
        {
            std::ostringstream os;
            os << "{\"policy\": \"" << policies[policy] << "\", \"workers\": " << workers << ", \"cpus\": " << cpus
               << ", \"stealing\": " << (stealing ? "true" : "false") << ", \"max_terminated\": " << max_terminated
               << ", \"init_threads\": " << init_threads << ", \"max_thread_count\": " << max_thread_count
               << ", \"min_steal_pending\": " << min_tasks_to_steal_pending
               << ", \"min_steal_staged\": " << min_tasks_to_steal_staged << ", \"max_busy_loop_count\": " << max_busy_loop_count
               << ", \"plan\": [";
            for (std::size_t i = 0; i < plan.size(); ++i)
            {
                os << (i ? ", " : "") << "{\"site\": " << plan[i].site << ", \"period\": " << plan[i].period
                   << ", \"action\": " << plan[i].action << ", \"ns\": " << dur_ns[plan[i].dur] << "}";
            }
            os << "]}";
            return os.str();
        }
    };

    // sites: candidate list for perturbation is supplied by the property (the hand-off points it names)
    inline RtConfig decode_config(Tape& t, std::vector<int> const& perturb_sites, int max_workers = 16,
        bool allow_static = true)
    {
        RtConfig c;
        c.policy = static_cast<int>(t.below(8));
        if (!allow_static && (c.policy == 3 || c.policy == 4)) c.policy = 0;
        // workers biased to small counts and the maximum
        int w = t.weighted({3, 3, 3, 3, 1, 1, 1, 1, 1, 1, 1, 1, 1, 1, 1, 3});
        c.workers = std::min(w + 1, max_workers);
        c.cpus = t.pick({0, 0, 1, 2});
        c.stealing = !t.chance(1, 4);
        c.max_terminated = t.pick({100, 1, 10});
        c.init_threads = t.pick({10, 0});
        c.max_thread_count = t.pick({1000, 20});
        c.min_tasks_to_steal_pending = t.pick({0, 0, 5});
        c.min_tasks_to_steal_staged = t.pick({0, 0, 5});
        c.max_busy_loop_count = t.pick({-1, -1, 1, 5, 50});
        int np = t.weighted({3, 3, 2, 1, 1});
        for (int i = 0; i < np && !perturb_sites.empty(); ++i)
        {
            Perturb p;
            p.site = perturb_sites[t.below(static_cast<std::uint32_t>(perturb_sites.size()))];
            p.period = t.pick({1, 2, 3, 7, 16});
            p.action = static_cast<int>(t.below(3));
            p.dur = static_cast<int>(t.below(sizeof(dur_ns) / sizeof(dur_ns[0])));
            c.plan.push_back(p);
        }
        return c;
    }

    // ---------------------------------------------------------------------------------------------
    // global per-child state
    struct Slot
    {
        std::atomic<void const*> key{nullptr};
        std::atomic<int> owner{0};          // worker+1 currently inside the coroutine call
        std::atomic<int> last_worker{-1};
        std::atomic<std::uint32_t> phases{0};
        std::atomic<int> dead{0};           // saw 'terminated' returned
    };
    inline constexpr std::size_t nslots = 1u << 15;

    struct Globals
    {
        Slot slots[nslots];
        std::atomic<std::uint64_t> phase_counter{0};     // incremented at every task activation
        std::atomic<std::uint64_t> migrations{0}, rebinds{0}, suspends{0}, active_retry{0}, store_fail{0};
        std::atomic<std::uint64_t> site_hits[vf::site_max];
        std::atomic<int> external_actors{0};             // OS threads that may still act on the runtime
        std::atomic<int> main_waiting{0};                // main thread parked in a harness wait
        std::atomic<int> main_waiting_for_signal{0};     // ... on an event that only runtime activity or an external actor can produce
        std::atomic<int> verdict_written{0};
        std::atomic<bool> monitor_on{false};
        std::vector<Perturb> plan;
        std::function<std::string()> diagnose;    // extra text for deadlock verdicts
        std::function<bool()> awaited_signal_missing;    // true while the signal the main thread waits for has not been produced
        std::function<void(int, void const*, std::uint64_t, std::uint64_t)> user_hook;
        // opt-in (targets whose programs never suspend workers): queues that hold work (pending or staged) while
        // no task is active and no task has been activated for this many consecutive samples = stranded work
        int stranded_after_samples = 0;
        // tasks the program keeps blocked on purpose for the time being (they are not evidence of a deadlock)
        std::atomic<long long> expected_suspended{0};
        // opt-in livelock rule: the target bumps `progress` whenever the generated program gets anywhere (an op of a body done,
        // a task finished, a round acknowledged).  If the runtime keeps activating tasks at full speed (> 2000 activations per
        // sample) for livelock_after_samples consecutive samples while `progress` does not move, the main thread waits and no
        // external actor is alive, the activity is not the program's: something internal re-schedules itself for ever.
        std::atomic<std::uint64_t> progress{0};
        int livelock_after_samples = 0;
        // tasks that are really inside their coroutine call right now (hook sites 1/2), as opposed to what their state word says
        std::atomic<long long> running_now{0};
        // flight recorder: the last hook events (all sites), dumped into failure messages on request
        struct Rec { std::atomic<std::uint64_t> seq{0}; int site = 0; void const* obj = nullptr; std::uint64_t a = 0, b = 0; long tid = 0; };
        static constexpr std::size_t nrec = 1u << 13;
        Rec* rec = nullptr;
        std::atomic<std::uint64_t> rec_next{0};
        // diagnostics only: what the main thread is waiting for right now (static string)
        std::atomic<char const*> main_wait_label{nullptr};
        // measurement only: longest run of consecutive quiescent samples in which the runtime's bookkeeping was not settled
        std::atomic<int> unsettled_quiet_max{0};
    };
    inline Globals& G()
    {
        static Globals* g = new Globals();
        return *g;
    }

    // write a FAIL verdict immediately and leave (used by monitors that fire on foreign threads)
    [[noreturn]] inline void fail_now(std::string const& oracle, std::string const& msg)
    {
        if (G().verdict_written.exchange(1) == 0)
        {
            // (triage aid for the authors, never set by MANIFEST commands: thread backtraces of the failing child)
            if (char const* dir = std::getenv("VERIF_DEBUG_GDB"))
            {
                std::string cmd = "gdb -p " + std::to_string(getpid()) + " -batch -ex 'thread apply all bt 25' > " + dir + "/" + oracle + "-" +
                    std::to_string(getpid()) + ".txt 2>&1";
                int r = std::system(cmd.c_str());
                (void) r;
            }
            Outcome o = Outcome::fail(oracle, msg);
            o.counters["phases"] = static_cast<long long>(G().phase_counter.load());
            std::string s = o.serialize();
            if (vf::child_fd() >= 0) { ssize_t r = write(vf::child_fd(), s.data(), s.size()); (void) r; }
            else std::fprintf(stderr, "FAIL %s: %s\n", oracle.c_str(), msg.c_str());
            _exit(0);
        }
        // another thread is already reporting: never exit under its feet
        for (;;) pause();
    }

    inline Slot& slot_for(void const* p)
    {
        std::size_t h = (reinterpret_cast<std::uintptr_t>(p) >> 6) * 0x9E3779B97F4A7C15ull >> 40;
        for (std::size_t i = 0; i < nslots; ++i)
        {
            Slot& s = G().slots[(h + i) & (nslots - 1)];
            void const* k = s.key.load(std::memory_order_acquire);
            if (k == p) return s;
            if (k == nullptr)
            {
                void const* exp = nullptr;
                if (s.key.compare_exchange_strong(exp, p, std::memory_order_acq_rel)) return s;
                if (exp == p) return s;
            }
        }
        std::fprintf(stderr, "harness: slot table full\n");
        _exit(3);
    }

    inline thread_local std::uint32_t tl_hits[vf::site_max];

    inline void do_perturb(int site)
    {
        for (Perturb const& p : G().plan)
        {
            if (p.site != site) continue;
            std::uint32_t h = ++tl_hits[site];
            if (h % static_cast<std::uint32_t>(p.period) != 0) continue;
            std::uint32_t ns = dur_ns[p.dur];
            if (p.action == 1) sched_yield();
            else if (p.action == 2)
            {
                struct timespec ts { 0, static_cast<long>(ns) };
                nanosleep(&ts, nullptr);
            }
            else
            {
                struct timespec a, b;
                clock_gettime(CLOCK_MONOTONIC, &a);
                do { clock_gettime(CLOCK_MONOTONIC, &b); } while (
                    (b.tv_sec - a.tv_sec) * 1000000000ll + (b.tv_nsec - a.tv_nsec) < static_cast<long long>(ns));
            }
        }
    }

    inline void enable_recorder()
    {
        if (!G().rec) G().rec = new Globals::Rec[Globals::nrec];
    }
    // the recorded events that concern `obj` (oldest first), at most `max_events`
    inline std::string dump_trace(void const* obj, std::size_t max_events = 40)
    {
        Globals& g = G();
        if (!g.rec) return "";
        std::uint64_t end = g.rec_next.load();
        std::uint64_t begin = end > Globals::nrec ? end - Globals::nrec : 0;
        std::vector<std::string> ev;
        for (std::uint64_t i = begin; i < end; ++i)
        {
            Globals::Rec& r = g.rec[i & (Globals::nrec - 1)];
            if (r.seq.load(std::memory_order_acquire) != i + 1 || r.obj != obj) continue;
            ev.push_back("#" + std::to_string(i) + " site" + std::to_string(r.site) + "(" + std::to_string(r.a) + "," + std::to_string(r.b) + ")@tid" + std::to_string(r.tid));
        }
        std::string out;
        std::size_t from = ev.size() > max_events ? ev.size() - max_events : 0;
        for (std::size_t i = from; i < ev.size(); ++i) out += (out.empty() ? "" : " ") + ev[i];
        return out;
    }

    inline void hook_cb(int site, void const* obj, std::uint64_t a, std::uint64_t b)
    {
        Globals& g = G();
        // (the spinlock site is very hot: it is only looked at when a perturbation plan names it)
        if (site == vf::S_SPINLOCK_LOCK) { if (!g.plan.empty()) do_perturb(site); return; }
        if (site > 0 && site < vf::site_max) g.site_hits[site].fetch_add(1, std::memory_order_relaxed);
        if (g.rec)
        {
            std::uint64_t i = g.rec_next.fetch_add(1, std::memory_order_relaxed);
            Globals::Rec& r = g.rec[i & (Globals::nrec - 1)];
            r.seq.store(0, std::memory_order_relaxed);
            r.site = site; r.obj = obj; r.a = a; r.b = b;
            static thread_local long tid = static_cast<long>(syscall(SYS_gettid));
            r.tid = tid;
            r.seq.store(i + 1, std::memory_order_release);
        }
        if (site == vf::S_SL_BEFORE_RUN) g.running_now.fetch_add(1, std::memory_order_relaxed);
        else if (site == vf::S_SL_AFTER_RUN) g.running_now.fetch_sub(1, std::memory_order_relaxed);
        if (g.monitor_on.load(std::memory_order_relaxed))
        {
            if (site == vf::S_SL_BEFORE_RUN)
            {
                g.phase_counter.fetch_add(1, std::memory_order_relaxed);
                Slot& s = slot_for(obj);
                int w = static_cast<int>(a) + 1;
                int exp = 0;
                if (!s.owner.compare_exchange_strong(exp, w))
                {
                    fail_now("single_runner", "task object " + std::to_string(reinterpret_cast<std::uintptr_t>(obj)) +
                            " entered by worker " + std::to_string(a) + " while worker " + std::to_string(exp - 1) + " is still running it");
                }
                if (s.dead.exchange(0)) { g.rebinds.fetch_add(1, std::memory_order_relaxed); s.phases.store(0); s.last_worker.store(-1); }
                int lw = s.last_worker.exchange(static_cast<int>(a));
                if (s.phases.fetch_add(1) > 0 && lw != static_cast<int>(a)) g.migrations.fetch_add(1, std::memory_order_relaxed);
            }
            else if (site == vf::S_SL_AFTER_RUN)
            {
                Slot& s = slot_for(obj);
                int w = static_cast<int>(a) + 1;
                if (b == 4 /* terminated */) s.dead.store(1);
                if (b == 3 /* suspended */) g.suspends.fetch_add(1, std::memory_order_relaxed);
                int exp = w;
                if (!s.owner.compare_exchange_strong(exp, 0))
                {
                    fail_now("single_runner", "task object left by worker " + std::to_string(a) + " but monitor owner is " + std::to_string(exp - 1));
                }
            }
            else if (site == vf::S_SL_AFTER_STORE)
            {
                if (b == 0) g.store_fail.fetch_add(1, std::memory_order_relaxed);
            }
            else if (site == vf::S_SET_ACTIVE_STATE || site == vf::S_STS_ACTIVE_HELPER)
            {
                g.active_retry.fetch_add(1, std::memory_order_relaxed);
            }
        }
        if (g.user_hook) g.user_hook(site, obj, a, b);
        if (!g.plan.empty()) do_perturb(site);
    }

    // ---------------------------------------------------------------------------------------------
    inline void restrict_cpus(int n)
    {
        if (n <= 0) return;
        cpu_set_t cur, set;
        CPU_ZERO(&set);
        sched_getaffinity(0, sizeof cur, &cur);
        // pick CPUs depending on pid so that parallel shards do not all pile on CPU 0
        int avail[256], na = 0;
        for (int i = 0; i < 256 && na < 256; ++i)
            if (CPU_ISSET(i, &cur)) avail[na++] = i;
        if (na == 0) return;
        int start = static_cast<int>(getpid() % na);
        for (int i = 0; i < n; ++i) CPU_SET(avail[(start + i) % na], &set);
        sched_setaffinity(0, sizeof set, &set);
    }

    struct ArgvHolder
    {
        std::vector<std::string> s;
        std::vector<char*> p;
        void build()
        {
            p.clear();
            for (auto& x : s) p.push_back(x.data());
            p.push_back(nullptr);
        }
    };

    inline std::vector<std::string> config_args(RtConfig const& c)
    {
        std::vector<std::string> a;
        a.push_back("verif");
        a.push_back("--pika:threads=" + std::to_string(c.workers));
        a.push_back(std::string("--pika:scheduler=") + policies[c.policy]);
        a.push_back("--pika:bind=none");
        a.push_back("--pika:ignore-process-mask");
        unsigned mode = 0x001 | 0x010 | 0x080;    // reduce_thread_priority | round_robin | steal_after_local
        if (c.stealing) mode |= 0x004 | 0x008;
        a.push_back("--pika:ini=pika.default_scheduler_mode=" + std::to_string(mode));
        a.push_back("--pika:ini=pika.thread_queue.max_terminated_threads=" + std::to_string(c.max_terminated));
        a.push_back("--pika:ini=pika.thread_queue.init_threads_count=" + std::to_string(c.init_threads));
        a.push_back("--pika:ini=pika.thread_queue.max_thread_count=" + std::to_string(c.max_thread_count));
        a.push_back("--pika:ini=pika.thread_queue.min_tasks_to_steal_pending=" + std::to_string(c.min_tasks_to_steal_pending));
        a.push_back("--pika:ini=pika.thread_queue.min_tasks_to_steal_staged=" + std::to_string(c.min_tasks_to_steal_staged));
        if (c.max_busy_loop_count >= 0) a.push_back("--pika:ini=pika.max_busy_loop_count=" + std::to_string(c.max_busy_loop_count));
        for (auto& e : c.extra_ini) a.push_back("--pika:ini=" + e);
        return a;
    }

    inline void install_hook(RtConfig const& c)
    {
        G().plan = c.plan;
        G().monitor_on = true;
        pika::verif::hook.store(&hook_cb);
    }

    // start the runtime without an entry function (pika::start(nullptr, ...))
    inline void start_runtime(RtConfig const& c, pika::init_params ip = pika::init_params())
    {
        static ArgvHolder* h = nullptr;
        delete h;
        h = new ArgvHolder();
        h->s = config_args(c);
        h->build();
        pika::start(nullptr, static_cast<int>(h->s.size()), h->p.data(), ip);
    }

    inline int stop_runtime()
    {
        pika::finalize();
        return pika::stop();
    }

    // ---------------------------------------------------------------------------------------------
    // Bounded calls: API calls of which the property says "the call returns" and that wait by busy-yielding
    // (so a hang is invisible to the quiescence detector).  The bound is generous (default 12 s for calls that
    // normally take micro- to milliseconds; the per-case watchdog is 60-90 s); it is checked by the detector
    // thread.  Violation = the call is still in progress after the bound.
    struct BoundedCalls
    {
        struct Entry { std::string what; double since = 0, limit = 0; bool active = false; };
        std::mutex m;
        std::vector<Entry> e;
    };
    inline BoundedCalls& bounded_calls()
    {
        static BoundedCalls* b = new BoundedCalls();
        return *b;
    }
    struct BoundedCall
    {
        std::size_t idx;
        explicit BoundedCall(std::string what, double limit_s = 12.0)
        {
            auto& b = bounded_calls();
            std::lock_guard<std::mutex> l(b.m);
            for (idx = 0; idx < b.e.size(); ++idx) if (!b.e[idx].active) break;
            if (idx == b.e.size()) b.e.emplace_back();
            b.e[idx].what = std::move(what);
            b.e[idx].since = now_s();
            b.e[idx].limit = limit_s;
            b.e[idx].active = true;
        }
        ~BoundedCall()
        {
            auto& b = bounded_calls();
            std::lock_guard<std::mutex> l(b.m);
            b.e[idx].active = false;
        }
    };
    inline void check_bounded_calls()
    {
        auto& b = bounded_calls();
        std::string what;
        double dur = 0;
        {
            std::lock_guard<std::mutex> l(b.m);
            double t = now_s();
            for (auto const& x : b.e)
                if (x.active && t - x.since > x.limit) { what = x.what; dur = t - x.since; break; }
        }
        if (!what.empty())
            fail_now("call_never_returns", what + " has not returned for " + std::to_string(static_cast<int>(dur)) + " s (activations so far: " +
                    std::to_string(G().phase_counter.load()) + "); " + (G().diagnose ? G().diagnose() : std::string()));
    }

    // ---------------------------------------------------------------------------------------------
    // Quiescence (deadlock) detector, DESIGN §3.3: state-based.
    struct Quiescence
    {
        std::thread th;
        std::atomic<bool> stop{false};
        int K = 6;
        int K_stuck = 100;    // see the "stuck" verdict below (4 s; 8 s on an overloaded machine, like stop mode)
        int period_ms = 40;
        // stop mode: used around finalize()/stop(), where pools may be torn down at any moment and
        // must not be sampled.  The verdict then rests on harness-side facts only: every generated
        // task has finished (all_done), the activation counter does not move, and the global
        // activity count stays non-zero -> thread_manager::wait() inside stop() can never return.
        std::atomic<int> stop_mode{0};
        std::function<bool()> all_done;
        std::mutex snap_mtx;    // held while pools are sampled; entering stop mode waits for it
        void enter_stop_mode(std::function<bool()> f)
        {
            std::lock_guard<std::mutex> l(snap_mtx);
            all_done = std::move(f);
            stop_mode.store(1);
        }

        static bool snapshot(long long& suspended, std::string& detail, long long* pending_out = nullptr, bool* phantom_active = nullptr)
        {
            using pika::threads::detail::thread_schedule_state;
            long long act = 0, pend = 0, stag = 0, susp = 0, poll = 0, qlen = 0;
            if (pika::detail::get_runtime_ptr() == nullptr)
                fail_now("runtime_died", "the runtime object is gone while the case is still running (an exception escaped a task and shut the runtime down)");
            auto& rp = pika::resource::get_partitioner();
            std::size_t np = rp.get_num_pools();
            for (std::size_t i = 0; i < np; ++i)
            {
                auto& pool = pika::resource::get_thread_pool(i);
                act += pool.get_thread_count_active(std::size_t(-1), false);
                pend += pool.get_thread_count_pending(std::size_t(-1), false);
                stag += pool.get_thread_count_staged(std::size_t(-1), false);
                susp += pool.get_thread_count_suspended(std::size_t(-1), false);
                pend += pool.get_thread_count(thread_schedule_state::pending_boost,
                    pika::execution::thread_priority::default_, std::size_t(-1), false);
                pend += pool.get_thread_count(thread_schedule_state::pending_do_not_schedule,
                    pika::execution::thread_priority::default_, std::size_t(-1), false);
                poll += static_cast<long long>(pool.get_scheduler()->get_polling_work_count());
                qlen += pool.get_scheduler()->get_queue_length();
            }
            suspended = susp;
            if (pending_out) *pending_out = pend;
            detail = "active=" + std::to_string(act) + " pending=" + std::to_string(pend) + " staged=" + std::to_string(stag) +
                " suspended=" + std::to_string(susp) + " polling=" + std::to_string(poll) + " queued=" + std::to_string(qlen);
            // Nothing can run again iff no task is active and no queue holds anything (work items or
            // staged descriptions).  A task whose state word says pending but which sits in no queue
            // is not runnable: counting queue contents, not state words, is what makes a dropped
            // task visible.  (A worker holding a just-popped task moves the activation counter.)
            // a task whose state word says 'active' while no worker is inside any coroutine call: nobody runs it and nobody will
            if (phantom_active) *phantom_active = act > 0 && G().running_now.load() == 0 && qlen == 0 && stag == 0 && poll == 0;
            return act == 0 && qlen == 0 && stag == 0 && poll == 0;
        }

        void start()
        {
            // (environment is read on the calling thread: getenv is not safe against a concurrent setenv)
            double dump_after = std::getenv("VERIF_DEBUG_DUMP") ? std::atof(std::getenv("VERIF_DEBUG_DUMP")) : 0;
            char const* debug_unsettled_dir = std::getenv("VERIF_DEBUG_UNSETTLED");
            th = std::thread([this, dump_after, debug_unsettled_dir] {
                int quiet = 0, stranded = 0, ll_samples = 0, phantom_n = 0;
                std::uint64_t phantom_phase = 0;
                std::uint64_t ll_progress = 0, ll_phase = 0, ll_phase0 = 0;
                std::uint64_t stranded_phase = 0;
                double t_start = now_s();
                std::uint64_t first_phase = 0;
                while (!stop.load())
                {
                    struct timespec ts { 0, period_ms * 1000000l };
                    nanosleep(&ts, nullptr);
                    if (stop.load()) break;
                    check_bounded_calls();
                    if (G().livelock_after_samples > 0 && !stop_mode.load())
                    {
                        std::uint64_t pr = G().progress.load(), ph = G().phase_counter.load();
                        bool busy = ph - ll_phase > 2000;
                        if (pr == ll_progress && busy && G().main_waiting.load() && G().external_actors.load() == 0)
                        {
                            if (++ll_samples >= G().livelock_after_samples)
                                fail_now("livelock_no_progress", "for " + std::to_string(ll_samples) + " consecutive samples (" + std::to_string(ll_samples * period_ms) +
                                        " ms) the runtime kept activating tasks (" + std::to_string(ph - ll_phase0) + " activations) while the generated program made no progress at all and only the runtime itself can be producing that work; " +
                                        (G().diagnose ? G().diagnose() : std::string()));
                        }
                        else { ll_samples = 0; ll_phase0 = ph; }
                        ll_progress = pr;
                        ll_phase = ph;
                    }
                    std::unique_lock<std::mutex> snap_lock(snap_mtx);
                    if (dump_after > 0 && now_s() - t_start > dump_after && !stop_mode.load())
                    {
                        long long su = 0;
                        std::string d;
                        snapshot(su, d);
                        std::fprintf(stderr, "DEBUG-DUMP %s phases=%llu active_retry=%llu :: %s\n", d.c_str(),
                            (unsigned long long) G().phase_counter.load(), (unsigned long long) G().active_retry.load(),
                            G().diagnose ? G().diagnose().c_str() : "");
                        t_start = now_s();
                    }
                    if (stop_mode.load())
                    {
                        std::uint64_t ph = G().phase_counter.load();
                        bool stuck = all_done && all_done() && pika::threads::detail::get_global_activity_count() != 0 &&
                            G().external_actors.load() == 0;
                        if (!stuck) { quiet = 0; continue; }
                        if (quiet == 0) first_phase = ph;
                        if (ph != first_phase) { quiet = 0; continue; }
                        // (this rule has no pool state to look at, only "nothing was activated": a pending task whose worker is starved of
                        // CPU on a loaded machine looks the same for a while, so the window is long: 4 s, 8 s when the machine is overloaded)
                        int need = 100;
                        {
                            double la[1] = {0};
                            if (getloadavg(la, 1) == 1 && la[0] > 2.0 * static_cast<double>(std::thread::hardware_concurrency())) need = 200;
                        }
                        if (++quiet >= need)
                            fail_now("stuck_in_stop", "every generated task has finished and no task was activated for " + std::to_string(need) +
                                    " samples, but the global activity count is still " + std::to_string(static_cast<long long>(pika::threads::detail::get_global_activity_count())) +
                                    ": wait()/stop() can never return");
                        continue;
                    }
                    if (!G().main_waiting.load() || G().external_actors.load() != 0) { quiet = 0; continue; }
                    long long susp = 0, pend = 0;
                    std::string d;
                    bool q = false;
                    std::uint64_t ph0 = G().phase_counter.load();
                    bool phantom = false;
                    try { q = snapshot(susp, d, &pend, &phantom); } catch (...) { q = false; }
                    std::uint64_t ph = G().phase_counter.load();
                    if (phantom && ph == ph0 && G().running_now.load() == 0)
                    {
                        if (phantom_n == 0 || ph != phantom_phase) { phantom_n = 1; phantom_phase = ph; }
                        else if (++phantom_n >= 4 * K)
                            fail_now("task_marked_active_but_not_running", "for " + std::to_string(phantom_n) + " consecutive samples no worker was inside a task and no task was activated, nothing is queued, but a task's state is 'active' (" + d +
                                    "): its state transition after leaving the worker was lost, it can never be resumed or finished; " + (G().diagnose ? G().diagnose() : std::string()));
                    }
                    else phantom_n = 0;
                    if (!q && G().stranded_after_samples > 0 && ph == ph0 && d.find("active=0 ") == 0 && d.find("polling=0 ") != std::string::npos)
                    {
                        // not quiescent only because queues still hold something: is anybody ever going to run it?
                        if (stranded == 0 || ph != stranded_phase) { stranded = 1; stranded_phase = ph; }
                        else if (++stranded >= G().stranded_after_samples)
                        {
                            std::string extra = G().diagnose ? G().diagnose() : std::string();
                            fail_now("stranded_work_quiescent", "no task is active and no task was activated for " + std::to_string(stranded) + " consecutive samples (" +
                                    std::to_string(stranded * period_ms) + " ms) although the queues hold work (" + d + "), no worker was suspended by the program and the main thread still waits; " + extra);
                        }
                    }
                    else stranded = 0;
                    if (!q || ph != ph0) { quiet = 0; continue; }
                    if (quiet == 0) first_phase = ph;
                    if (ph != first_phase) { quiet = 0; continue; }
                    ++quiet;
                    // re-check the guards after the snapshot
                    if (!G().main_waiting.load() || G().external_actors.load() != 0 || stop.load()) { quiet = 0; continue; }
                    // no suspended task at all: the state is only stuck if the global activity count
                    // leaked (otherwise the waiting main thread is merely about to notice)
                    // (the waiting main thread may simply not have been scheduled yet after the signal was
                    // produced: the harness must confirm that the awaited signal is still missing)
                    if (G().main_waiting_for_signal.load() && G().awaited_signal_missing && !G().awaited_signal_missing()) { quiet = 0; continue; }
                    if (quiet >= K && G().main_waiting_for_signal.load() && G().awaited_signal_missing)
                    {
                        std::string extra = G().diagnose ? G().diagnose() : std::string();
                        fail_now("no_signal_quiescent", "the main thread waits for a completion signal, but the runtime is quiescent for " + std::to_string(K) +
                                " consecutive samples (" + d + ", activation counter unchanged) and no external actor is alive: nobody can ever deliver it; " + extra);
                    }
                    long long exp_susp = G().expected_suspended.load();
                    {
                        // (measurement only: how long does the "nothing left to run, bookkeeping not finished" state last in passing cases?)
                        bool unsettled = susp <= exp_susp && pend == 0 && static_cast<long long>(pika::threads::detail::get_global_activity_count()) > exp_susp;
                        if (unsettled && quiet > G().unsettled_quiet_max.load()) G().unsettled_quiet_max.store(quiet);
                        // (triage aid, never set by MANIFEST commands: look at the process while it is in that state)
                        if (unsettled && (quiet == 3 || quiet == 12) && debug_unsettled_dir)
                        {
                            char const* lbl = G().main_wait_label.load();
                            std::string base = std::string(debug_unsettled_dir) + "/unsettled-" + std::to_string(getpid()) + "-q" + std::to_string(quiet);
                            std::string cmd = "(echo '" + d + " activity=" + std::to_string(static_cast<long long>(pika::threads::detail::get_global_activity_count())) +
                                " exp_susp=" + std::to_string(exp_susp) + " wait=" + (lbl ? lbl : "?") + " :: " + (G().diagnose ? G().diagnose() : std::string()) +
                                "'; gdb -p " + std::to_string(getpid()) + " -batch -ex 'thread apply all bt 30') > " + base + ".txt 2>&1";
                            int r = std::system(cmd.c_str());
                            (void) r;
                        }
                    }
                    if (quiet >= K && susp <= exp_susp && pend == 0 && static_cast<long long>(pika::threads::detail::get_global_activity_count()) <= exp_susp) { quiet = 0; continue; }
                    // "stuck" (no suspended task beyond the expected ones, nothing pending): the only positive fact is that the global activity
                    // count has not come down, i.e. some OS thread has not finished its bookkeeping for a finished task.  A leak is
                    // permanent, an OS thread that is merely not running (host / CPU starvation) is not: this verdict waits K_stuck samples,
                    // the same window as the equivalent rule of stop mode (stuck_in_stop).
                    if (pend == 0 && susp <= exp_susp)
                    {
                        int need = K_stuck;
                        double la[1] = {0};
                        if (getloadavg(la, 1) == 1 && la[0] > 2.0 * static_cast<double>(std::thread::hardware_concurrency())) need = 2 * K_stuck;
                        if (quiet < need) continue;
                    }
                    if (quiet >= K)
                    {
                        std::string extra = G().diagnose ? G().diagnose() : std::string();
                        extra += "; global activity count " + std::to_string(static_cast<long long>(pika::threads::detail::get_global_activity_count()));
                        if (char const* lbl = G().main_wait_label.load()) extra += std::string("; main thread waits in: ") + lbl;
                        fail_now(pend > 0 ? "dropped_task_quiescent" : susp > exp_susp ? "deadlock_quiescent" : "stuck_quiescent",
                            "runtime quiescent for " + std::to_string(quiet) + " consecutive samples (" + d +
                                ", phase counter unchanged, no external actor) while the main thread still waits; " + extra);
                    }
                }
            });
        }
        void finish()
        {
            stop = true;
            if (th.joinable()) th.join();
        }
    };

    struct MainWaiting
    {
        char const* prev = nullptr;
        explicit MainWaiting(char const* label = nullptr) { prev = G().main_wait_label.exchange(label); G().main_waiting.fetch_add(1); }
        ~MainWaiting() { G().main_waiting.fetch_sub(1); G().main_wait_label.store(prev); }
    };
    struct MainWaitingForSignal
    {
        MainWaitingForSignal() { G().main_waiting_for_signal.fetch_add(1); G().main_waiting.fetch_add(1); }
        ~MainWaitingForSignal() { G().main_waiting.fetch_sub(1); G().main_waiting_for_signal.fetch_sub(1); }
    };
    struct ExternalActor
    {
        ExternalActor() { G().external_actors.fetch_add(1); }
        ~ExternalActor() { G().external_actors.fetch_sub(1); }
    };

    inline void add_monitor_counters(Outcome& o)
    {
        o.counters["phases"] = static_cast<long long>(G().phase_counter.load());
        o.counters["migrations"] = static_cast<long long>(G().migrations.load());
        o.counters["rebinds"] = static_cast<long long>(G().rebinds.load());
        o.counters["suspends"] = static_cast<long long>(G().suspends.load());
        o.counters["active_retry"] = static_cast<long long>(G().active_retry.load());
        o.counters["store_fail"] = static_cast<long long>(G().store_fail.load());
        int uq = G().unsettled_quiet_max.load();
        o.counters["cases_quiescent_but_unsettled_for_1_or_more_samples"] = uq >= 1;
        o.counters["cases_quiescent_but_unsettled_for_2_or_more_samples"] = uq >= 2;
        o.counters["cases_quiescent_but_unsettled_for_4_or_more_samples"] = uq >= 4;
    }
}    // namespace vf::rt
