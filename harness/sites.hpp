// Stable ids of the PIKA_VERIF_POINT sites in /repo (see DESIGN.md §2.2).
#pragma once
namespace vf {
    enum site_id : int
    {
        S_SL_BEFORE_RUN = 1,       // scheduling_loop: before the coroutine call (obj=thread_data*, a=worker)
        S_SL_AFTER_RUN = 2,        // scheduling_loop: after the coroutine call (b=returned schedule state)
        S_SL_AFTER_STORE = 3,      // scheduling_loop: after store_state (b=1 stored, 0 lost the CAS)
        S_DO_YIELD = 10,           // execution_agent::do_yield before the context switch (a=requested state)
        S_STS_BEFORE_CAS = 11,     // set_thread_state between load and CAS (a=old state, b=new state)
        S_STS_BEFORE_SCHEDULE = 12,// set_thread_state before schedule_thread
        S_SET_ACTIVE_STATE = 13,   // set_active_state (helper task) entry
        S_STS_ACTIVE_HELPER = 14,  // set_thread_state: target active, about to create the helper task
        S_STS_ENTRY = 15,          // set_thread_state entry (hint argument already evaluated by the caller, state not yet read)
        S_CV_WAIT = 20,            // detail::condition_variable::wait between unlock and suspend
        S_CV_NOTIFY_ONE = 21,      // notify_one before resume
        S_CV_NOTIFY_ALL = 22,      // notify_all before each resume
        S_CV_WAIT_UNTIL = 23,      // wait_until between unlock and sleep_until
        S_MUTEX_LOCK_WAIT = 30,    // mutex::lock after the owner test, before wait
        S_MUTEX_UNLOCK = 31,       // mutex::unlock after clearing the owner, before notify
        S_SEM_SIGNAL = 40,         // counting_semaphore::signal between value update and notify
        S_SEM_WAIT = 41,           // counting_semaphore::wait entry
        S_SEM_SIGNAL_RELOCK = 42,  // counting_semaphore::signal: one waiter notified, lock released, before re-taking it for the next
        S_LATCH_NOTIFY = 50,       // latch before the notify loop
        S_BARRIER_ARRIVE = 51,     // barrier arrive between ticket CASes
        S_ONCE_BEFORE_CAS = 52,    // call_once: top of the retry loop, before the status CAS
        S_ONCE_WON = 53,           // call_once: CAS won, before the event is reset and the callable runs
        S_THREAD_JOIN = 60,        // thread::join between callback registration and suspend
        S_EXIT_CALLBACKS = 61,     // thread_data::run_thread_exit_callbacks entry
        S_EXIT_CALLBACK_CALL = 62, // run_thread_exit_callbacks: lock released, before invoking one callback
        S_STOP_BEFORE_EXEC = 70,   // stop_state::request_stop between dequeue and execute
        S_STOP_AFTER_EXEC = 71,    // ... after execute
        S_STOP_REMOVE = 72,        // remove_callback after the unlink attempt
        S_STOP_REMOVE_LOCKED = 73, // remove_callback: state word locked, before the unlink attempt
        S_STOP_ADD_LOCKED = 74,    // add_callback: state word locked, before linking
        S_STOP_REQ_LOADED = 75,    // lock_and_request_stop: state loaded (no stop yet), before the locking CAS
        S_STOP_REG_LOADED = 76,    // lock_if_not_stopped: state loaded (no stop yet), before the locking CAS
        S_IQ_POP_LEFT = 80,        // contiguous_index_queue::pop_left between load and CAS
        S_IQ_POP_RIGHT = 81,
        S_DQ_ANCHOR_LOADED = 90,   // deque push/pop: anchor loaded
        S_DQ_PUSH_CAS_DONE = 91,   // deque push: anchor CAS succeeded, not yet stabilised
        S_DQ_STABILIZE = 92,       // stabilize_left/right after loading the neighbour link
        S_DQ_STABILIZE_CAS = 93,   // stabilize before the final anchor CAS
        S_DQ_POP_RECHECK = 94,     // pop: anchor re-checked, before reading the neighbour link
        S_SPINLOCK_LOCK = 100,     // concurrency::detail::spinlock::lock entry (every internal lock acquisition; E-vt: a decision point)
        S_RW_ADD_OP_STATE = 110,   // async_rw_mutex add_op_state before the CAS
        S_RW_DONE_BEFORE = 111,    // done() before the exchange
        S_RW_DONE_AFTER = 112,     // done() after the exchange
        S_SPLIT_ADD_CONT = 120,    // split: add_continuation saw predecessor_done == false, before taking the lock
        S_SPLIT_PRED_DONE = 121,   // split: predecessor_done set, before the lock/unlock
        S_SPLIT_RUN_CONTS = 122,   // split: before running the stored continuations
        S_ES_ADD_CONT = 123,       // ensure_started: same three points
        S_ES_PRED_DONE = 124,
        S_ES_RUN_CONT = 125,
        S_ST_ADD_CONT = 126,       // split_tuple: same three points
        S_ST_PRED_DONE = 127,
        S_ST_RUN_CONTS = 128,
        S_WHEN_ALL_FINISH = 129,   // when_all: finish() before the counter decrement
        S_WHEN_ALL_VECTOR_FINISH = 130,
        site_max = 200
    };
}
