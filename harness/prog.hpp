// Generated task programs for the real runtime (C01, C02, C05, ...): forests of tasks with
// spawn/yield/suspend-on-event/signal/join ops, several creation methods, priorities, stack sizes,
// hints, external submitters and waves.  Termination under every fair schedule holds by
// construction: a task only waits on events signalled by a task with a *larger* index, and no task
// spawns after its first wait (DESIGN §4.0 / C01).
#pragma once
#include "rt.hpp"

#include <pika/condition_variable.hpp>
#include <pika/latch.hpp>
#include <pika/mutex.hpp>
#include <pika/semaphore.hpp>
#include <pika/synchronization/event.hpp>
#include <pika/threading_base/register_thread.hpp>

#include <memory>

namespace vf::prog {
    using namespace vf::rt;

    enum OpKind { OP_SPAWN, OP_YIELD, OP_YIELDK, OP_SPIN, OP_WAIT, OP_SIGNAL, OP_JOIN };
    struct Op
    {
        OpKind k;
        int arg;
    };
    enum Method { M_EXECUTE, M_SCHEDULE_THEN, M_THREAD_DETACHED, M_THREAD_JOINED, M_REGISTER_WORK, M_REGISTER_THREAD, M_COUNT };
    inline char const* const method_names[] = {"execute", "schedule_then_start_detached", "pika_thread_detached",
        "pika_thread_joined", "register_work", "register_thread_run_now"};
    inline char const* const prio_names[] = {"normal", "low", "high", "high_recursive", "boost"};
    inline char const* const stack_names[] = {"small", "medium", "large", "huge", "nostack"};
    inline char const* const event_names[] = {"latch", "semaphore", "mutex_cv", "event", "timed_cv"};

    struct TaskSpec
    {
        int parent = -1;    // -1: root
        int wave = 0;
        int submitter = 0;    // roots: 0 = main thread, k>0 external OS thread k
        int method = 0, prio = 0, stack = 0, hint = -1;
        std::vector<Op> ops;
    };
    struct EventSpec
    {
        int kind = 0;
        int signaller = 0;
        std::vector<int> waiters;
    };
    struct Program
    {
        std::vector<TaskSpec> tasks;
        std::vector<EventSpec> events;
        int nwaves = 1;
        int nsubmitters = 0;
        int mass_event = -1;    // id of the event nearly all tasks of a wave wait for (-1: none)

        std::string describe() const
        {
            std::ostringstream os;
            os << "{\"waves\": " << nwaves << ", \"submitters\": " << nsubmitters << ", \"mass_wait_event\": " << mass_event << ", \"tasks\": [";
            for (std::size_t i = 0; i < tasks.size(); ++i)
            {
                auto const& t = tasks[i];
                os << (i ? ", " : "") << "{\"i\": " << i << ", \"parent\": " << t.parent << ", \"wave\": " << t.wave;
                if (t.parent < 0) os << ", \"submitter\": " << t.submitter;
                os << ", \"via\": \"" << method_names[t.method] << "\", \"prio\": \"" << prio_names[t.prio]
                   << "\", \"stack\": \"" << stack_names[t.stack] << "\", \"hint\": " << t.hint << ", \"ops\": \"";
                for (auto const& o : t.ops)
                {
                    switch (o.k)
                    {
                    case OP_SPAWN: os << "S" << o.arg << " "; break;
                    case OP_YIELD: os << "y "; break;
                    case OP_YIELDK: os << "yk" << o.arg << " "; break;
                    case OP_SPIN: os << "sp" << o.arg << " "; break;
                    case OP_WAIT: os << "W" << o.arg << " "; break;
                    case OP_SIGNAL: os << "!" << o.arg << " "; break;
                    case OP_JOIN: os << "J" << o.arg << " "; break;
                    }
                }
                os << "\"}";
            }
            os << "], \"events\": [";
            for (std::size_t e = 0; e < events.size(); ++e)
            {
                os << (e ? ", " : "") << "{\"e\": " << e << ", \"kind\": \"" << event_names[events[e].kind]
                   << "\", \"signaller\": " << events[e].signaller << ", \"waiters\": [";
                for (std::size_t k = 0; k < events[e].waiters.size(); ++k) os << (k ? "," : "") << events[e].waiters[k];
                os << "]}";
            }
            os << "]}";
            return os.str();
        }
    };

    struct ProgOptions
    {
        int max_tasks = 400;
        int workers = 1;
        bool allow_events = true;
        int event_weight = 2;    // out of 8: chance that a task participates as waiter
    };

    inline Program decode_program(Tape& t, ProgOptions const& opt)
    {
        Program p;
        p.nwaves = t.weighted({4, 2, 1}) + 1;
        p.nsubmitters = t.weighted({4, 2, 1, 1});
        // tasks
        while (static_cast<int>(p.tasks.size()) < opt.max_tasks && (p.tasks.empty() || t.chance(31, 32)))
        {
            TaskSpec s;
            int i = static_cast<int>(p.tasks.size());
            bool root = i == 0 || t.chance(1, 6);
            if (root)
            {
                s.parent = -1;
                s.wave = static_cast<int>(t.below(static_cast<std::uint32_t>(p.nwaves)));
                s.submitter = static_cast<int>(t.below(static_cast<std::uint32_t>(p.nsubmitters + 1)));
            }
            else
            {
                // bias towards recent tasks (chains) and task 0 (fan-out)
                int sel = t.weighted({2, 2, 3});
                s.parent = sel == 0 ? i - 1 : sel == 1 ? 0 : static_cast<int>(t.below(static_cast<std::uint32_t>(i)));
                s.wave = p.tasks[static_cast<std::size_t>(s.parent)].wave;
            }
            s.method = t.weighted({4, 3, 2, 2, 2, 1});
            s.prio = t.weighted({6, 1, 2, 1, 1});
            s.stack = t.weighted({6, 1, 1, 1, 1});
            s.hint = t.chance(1, 3) ? static_cast<int>(t.below(static_cast<std::uint32_t>(opt.workers))) : -1;
            // pika::thread can only be constructed on a pika task (its constructor reads the
            // creating task's scheduler): roots are submitted from plain OS threads
            if ((s.method == M_THREAD_JOINED || s.method == M_THREAD_DETACHED) && root) s.method = M_EXECUTE;
            if ((s.method == M_THREAD_DETACHED || s.method == M_THREAD_JOINED)) { s.stack = 0; s.prio = 0; s.hint = -1; }
            // parent must be able to suspend for join
            if (s.method == M_THREAD_JOINED && p.tasks[static_cast<std::size_t>(s.parent)].stack == 4) s.method = M_THREAD_DETACHED;
            int nops = t.weighted({3, 3, 2, 2, 1, 1});
            for (int k = 0; k < nops; ++k)
            {
                int kind = t.weighted({4, 2, 2});
                if (s.stack == 4) kind = 2;    // stackless tasks cannot yield
                if (kind == 0) s.ops.push_back({OP_YIELD, 0});
                else if (kind == 1) s.ops.push_back({OP_YIELDK, t.pick({1, 4, 8, 17, 33})});
                else s.ops.push_back({OP_SPIN, t.pick({10, 100, 1000, 20000})});
            }
            p.tasks.push_back(std::move(s));
        }
        int n = static_cast<int>(p.tasks.size());
        // spawn ops: placed at a generated position of the parent's op list
        std::vector<int> last_spawn_pos(static_cast<std::size_t>(n), -1);
        for (int i = 1; i < n; ++i)
        {
            int par = p.tasks[static_cast<std::size_t>(i)].parent;
            if (par < 0) continue;
            auto& ops = p.tasks[static_cast<std::size_t>(par)].ops;
            int pos = static_cast<int>(t.below(static_cast<std::uint32_t>(ops.size() + 1)));
            ops.insert(ops.begin() + pos, Op{OP_SPAWN, i});
        }
        // joins: after all spawns of the parent
        for (int i = 1; i < n; ++i)
        {
            auto const& s = p.tasks[static_cast<std::size_t>(i)];
            if (s.method != M_THREAD_JOINED) continue;
            p.tasks[static_cast<std::size_t>(s.parent)].ops.push_back(Op{OP_JOIN, i});
        }
        // events
        if (opt.allow_events && n >= 2)
        {
            int nev = std::min<int>(n / 2, static_cast<int>(t.below(static_cast<std::uint32_t>(n / 2 + 1))));
            for (int e = 0; e < nev; ++e)
            {
                EventSpec ev;
                ev.kind = static_cast<int>(t.below(5));
                ev.signaller = 1 + static_cast<int>(t.below(static_cast<std::uint32_t>(n - 1)));
                int wave = p.tasks[static_cast<std::size_t>(ev.signaller)].wave;
                int nw = t.weighted({4, 2, 1}) + 1;
                for (int k = 0; k < nw; ++k)
                {
                    int w = static_cast<int>(t.below(static_cast<std::uint32_t>(ev.signaller)));
                    auto const& ws = p.tasks[static_cast<std::size_t>(w)];
                    if (ws.wave != wave || ws.stack == 4) continue;
                    if (std::find(ev.waiters.begin(), ev.waiters.end(), w) != ev.waiters.end()) continue;
                    ev.waiters.push_back(w);
                }
                if (ev.waiters.empty()) continue;
                // A timed wait is a yield-until-deadline polling loop: under strict priority scheduling
                // a polling waiter above its signaller's priority may starve it forever (legal pika
                // behaviour, not a dropped task).  Polling waits are therefore only given to
                // low-priority waiters (the low-priority queue is served last and FIFO).
                if (ev.kind == 4)
                    for (int w : ev.waiters)
                        if (p.tasks[static_cast<std::size_t>(w)].prio != 1) ev.kind = 2;
                int id = static_cast<int>(p.events.size());
                // signal: anywhere in the signaller's ops
                {
                    auto& ops = p.tasks[static_cast<std::size_t>(ev.signaller)].ops;
                    int pos = static_cast<int>(t.below(static_cast<std::uint32_t>(ops.size() + 1)));
                    ops.insert(ops.begin() + pos, Op{OP_SIGNAL, id});
                }
                for (int w : ev.waiters)
                {
                    auto& ops = p.tasks[static_cast<std::size_t>(w)].ops;
                    int lo = 0;
                    for (std::size_t k = 0; k < ops.size(); ++k)
                        if (ops[k].k == OP_SPAWN) lo = static_cast<int>(k) + 1;
                    int pos = lo + static_cast<int>(t.below(static_cast<std::uint32_t>(ops.size() - static_cast<std::size_t>(lo) + 1)));
                    ops.insert(ops.begin() + pos, Op{OP_WAIT, id});
                }
                p.events.push_back(std::move(ev));
            }
        }
        // mass wait: (nearly) every earlier task of the last task's wave blocks on one event that the last task
        // signals -- many simultaneously suspended tasks per queue while the signaller may still be staged (the
        // thread-count limits of the queues, pika.thread_queue.max_thread_count, become reachable)
        if (opt.allow_events && n >= 6 && t.chance(1, 3))
        {
            EventSpec ev;
            ev.kind = t.pick({0, 3, 1, 2});
            ev.signaller = n - 1;
            int wave = p.tasks[static_cast<std::size_t>(ev.signaller)].wave;
            for (int w = 0; w < ev.signaller && ev.waiters.size() < 200; ++w)
            {
                auto const& ws = p.tasks[static_cast<std::size_t>(w)];
                if (ws.wave != wave || ws.stack == 4) continue;
                ev.waiters.push_back(w);
            }
            if (ev.waiters.size() >= 3)
            {
                int id = static_cast<int>(p.events.size());
                p.tasks[static_cast<std::size_t>(ev.signaller)].ops.push_back(Op{OP_SIGNAL, id});
                for (int w : ev.waiters)
                {
                    auto& ops = p.tasks[static_cast<std::size_t>(w)].ops;
                    int lo = 0;
                    for (std::size_t k = 0; k < ops.size(); ++k)
                        if (ops[k].k == OP_SPAWN) lo = static_cast<int>(k) + 1;
                    ops.insert(ops.begin() + lo, Op{OP_WAIT, id});
                }
                p.mass_event = id;
                p.events.push_back(std::move(ev));
            }
        }
        return p;
    }

    // ---------------------------------------------------------------------------------------------
    // Interpreter
    struct EventRt
    {
        int kind = 0;
        int nwaiters = 0;
        std::unique_ptr<pika::latch> latch;
        std::unique_ptr<pika::counting_semaphore<>> sem;
        pika::mutex mtx;
        pika::condition_variable cv;
        bool flag = false;
        pika::experimental::event ev;
        std::atomic<int> issued{0};     // signal call returned
        std::atomic<int> waiting{0};    // waiters currently inside wait
        std::atomic<int> returned{0};
    };

    struct Ledger
    {
        int n = 0;
        std::unique_ptr<std::atomic<int>[]> entered, finished, running, spawned;
        std::atomic<int> violations{0};
        std::atomic<int> blocked_now{0};
        void init(int n_)
        {
            n = n_;
            entered.reset(new std::atomic<int>[static_cast<std::size_t>(n)]());
            finished.reset(new std::atomic<int>[static_cast<std::size_t>(n)]());
            running.reset(new std::atomic<int>[static_cast<std::size_t>(n)]());
            spawned.reset(new std::atomic<int>[static_cast<std::size_t>(n)]());
        }
    };

    struct Interp
    {
        Program const& p;
        RtConfig const& cfg;
        Ledger led;
        std::vector<std::unique_ptr<EventRt>> evs;
        std::vector<std::unique_ptr<pika::thread>> joinable;    // index = task
        std::vector<std::unique_ptr<pika::latch>> done;          // fallback for joins on non-joinable threads
        std::atomic<int> not_joinable{0};
        std::function<void(int)> body_hook;                      // extra per-segment check (C05: suspended flag)

        Interp(Program const& p_, RtConfig const& c_)
          : p(p_)
          , cfg(c_)
        {
            led.init(static_cast<int>(p.tasks.size()));
            for (auto const& e : p.events)
            {
                auto r = std::make_unique<EventRt>();
                r->kind = e.kind;
                r->nwaiters = static_cast<int>(e.waiters.size());
                r->latch = std::make_unique<pika::latch>(1);
                r->sem = std::make_unique<pika::counting_semaphore<>>(0);
                evs.push_back(std::move(r));
            }
            joinable.resize(p.tasks.size());
            done.resize(p.tasks.size());
            for (std::size_t i = 0; i < p.tasks.size(); ++i)
                if (p.tasks[i].method == M_THREAD_JOINED) done[i] = std::make_unique<pika::latch>(1);
        }

        static pika::execution::thread_priority prio_of(int k)
        {
            using P = pika::execution::thread_priority;
            static P const m[] = {P::normal, P::low, P::high, P::high_recursive, P::boost};
            return m[k];
        }
        static pika::execution::thread_stacksize stack_of(int k)
        {
            using S = pika::execution::thread_stacksize;
            static S const m[] = {S::small_, S::medium, S::large, S::huge, S::nostack};
            return m[k];
        }

        void seg_enter(int i)
        {
            if (led.running[static_cast<std::size_t>(i)].exchange(1) != 0)
                fail_now("two_runners_in_body", "task " + std::to_string(i) + " is executing on two workers at once (body segment re-entered while marked running)");
            if (body_hook) body_hook(i);
        }
        void seg_leave(int i) { led.running[static_cast<std::size_t>(i)].store(0); }

        void spawn(int j)
        {
            TaskSpec const& s = p.tasks[static_cast<std::size_t>(j)];
            if (led.spawned[static_cast<std::size_t>(j)].fetch_add(1) != 0)
                fail_now("harness_double_spawn", "harness bug: task spawned twice " + std::to_string(j));
            auto f = [this, j]() { body(j); };
            namespace tt = pika::threads::detail;
            switch (s.method)
            {
            case M_EXECUTE:
            case M_SCHEDULE_THEN:
            {
                ex::thread_pool_scheduler sched{};
                auto sc = ex::with_stacksize(ex::with_priority(sched, prio_of(s.prio)), stack_of(s.stack));
                if (s.hint >= 0)
                    sc = ex::with_hint(sc, pika::execution::thread_schedule_hint(static_cast<std::int16_t>(s.hint)));
                if (s.method == M_EXECUTE) ex::execute(sc, f);
                else ex::start_detached(ex::then(ex::schedule(sc), f));
                break;
            }
            case M_THREAD_DETACHED:
            {
                pika::thread th(f);
                th.detach();
                break;
            }
            case M_THREAD_JOINED:
            {
                joinable[static_cast<std::size_t>(j)] = std::make_unique<pika::thread>(f);
                break;
            }
            case M_REGISTER_WORK:
            case M_REGISTER_THREAD:
            {
                tt::thread_init_data data(tt::make_thread_function_nullary(f), "verif", prio_of(s.prio),
                    s.hint >= 0 ? pika::execution::thread_schedule_hint(static_cast<std::int16_t>(s.hint)) :
                                  pika::execution::thread_schedule_hint(),
                    stack_of(s.stack));
                auto* pool = &pika::resource::get_thread_pool(0);
                if (s.method == M_REGISTER_WORK) tt::register_work(data, pool);
                else tt::register_thread(data, pool);
                break;
            }
            }
        }

        void do_wait(int i, int e)
        {
            EventRt& r = *evs[static_cast<std::size_t>(e)];
            r.waiting.fetch_add(1);
            led.blocked_now.fetch_add(1);
            seg_leave(i);
            switch (r.kind)
            {
            case 0: r.latch->wait(); break;
            case 1: r.sem->acquire(); break;
            case 2:
            {
                std::unique_lock<pika::mutex> l(r.mtx);
                r.cv.wait(l, [&] { return r.flag; });
                break;
            }
            case 3: r.ev.wait(); break;
            case 4:
            {
                // a timed wait on a task is a (priority-boosted) yield loop until the deadline.  On a pool whose only free worker runs
                // this loop, a signaller that is still *staged* is never converted into a thread (staged work is only looked at when a
                // worker finds nothing pending): polling for ever would be a livelock made by the program, not a dropped task.  So: a
                // bounded number of timed waits, then a blocking one (the worker goes idle and converts staged work)
                std::unique_lock<pika::mutex> l(r.mtx);
                for (int polls = 0; !r.flag && polls < 40; ++polls) r.cv.wait_for(l, std::chrono::milliseconds(1));
                r.cv.wait(l, [&] { return r.flag; });
                break;
            }
            }
            seg_enter(i);
            led.blocked_now.fetch_sub(1);
            r.waiting.fetch_sub(1);
            r.returned.fetch_add(1);
        }
        void do_signal(int e)
        {
            EventRt& r = *evs[static_cast<std::size_t>(e)];
            switch (r.kind)
            {
            case 0: r.latch->count_down(1); break;
            case 1: r.sem->release(r.nwaiters); break;
            case 2:
            case 4:
            {
                {
                    std::unique_lock<pika::mutex> l(r.mtx);
                    r.flag = true;
                }
                r.cv.notify_all();
                break;
            }
            case 3: r.ev.set(); break;
            }
            r.issued.store(1);
        }

        void body(int i)
        {
            TaskSpec const& s = p.tasks[static_cast<std::size_t>(i)];
            if (led.entered[static_cast<std::size_t>(i)].fetch_add(1) != 0)
                fail_now("body_entered_twice", "task " + std::to_string(i) + " (" + method_names[s.method] + ") body entered more than once");
            seg_enter(i);
            auto id0 = pika::threads::detail::get_self_id();
            try
            {
            for (Op const& o : s.ops)
            {
                switch (o.k)
                {
                case OP_SPAWN: spawn(o.arg); break;
                case OP_YIELD:
                    seg_leave(i);
                    pika::this_thread::yield();
                    seg_enter(i);
                    break;
                case OP_YIELDK:
                    seg_leave(i);
                    pika::execution::this_thread::detail::yield_k(static_cast<std::size_t>(o.arg), "verif");
                    seg_enter(i);
                    break;
                case OP_SPIN:
                {
                    volatile int x = 0;
                    for (int k = 0; k < o.arg; ++k) x = x + 1;
                    break;
                }
                case OP_WAIT: do_wait(i, o.arg); break;
                case OP_SIGNAL: do_signal(o.arg); break;
                case OP_JOIN:
                {
                    auto& th = joinable[static_cast<std::size_t>(o.arg)];
                    led.blocked_now.fetch_add(1);
                    seg_leave(i);
                    if (th->joinable()) th->join();
                    else
                    {
                        // A freshly constructed pika::thread that is not joinable is C13's business
                        // (known finding there); for the program's progress fall back to polling.
                        not_joinable.fetch_add(1);
                        done[static_cast<std::size_t>(o.arg)]->wait();
                    }
                    seg_enter(i);
                    led.blocked_now.fetch_sub(1);
                    if (led.finished[static_cast<std::size_t>(o.arg)].load() != 1)
                        fail_now("join_before_finish", "join() on task " + std::to_string(o.arg) + " returned before its body finished");
                    break;
                }
                }
                if (pika::threads::detail::get_self_id() != id0)
                    fail_now("identity_changed", "task " + std::to_string(i) + " observed a different thread id after an op");
            }
            }
            catch (std::exception const& e)
            {
                fail_now("unexpected_exception", "task " + std::to_string(i) + ": an op of the generated program threw: " + e.what());
            }
            seg_leave(i);
            led.finished[static_cast<std::size_t>(i)].fetch_add(1);
            if (done[static_cast<std::size_t>(i)]) done[static_cast<std::size_t>(i)]->count_down(1);
        }

        std::string diagnose() const
        {
            std::ostringstream os;
            int unentered = 0, unfinished = 0;
            for (int i = 0; i < led.n; ++i)
            {
                if (led.spawned[static_cast<std::size_t>(i)].load() && !led.entered[static_cast<std::size_t>(i)].load()) { if (unentered++ < 5) os << "task " << i << " spawned but never entered; "; }
                else if (led.entered[static_cast<std::size_t>(i)].load() && !led.finished[static_cast<std::size_t>(i)].load()) { if (unfinished++ < 5) os << "task " << i << " entered but unfinished; "; }
            }
            for (std::size_t e = 0; e < evs.size(); ++e)
                if (evs[e]->waiting.load() > 0)
                    os << "event " << e << "(" << event_names[evs[e]->kind] << ") issued=" << evs[e]->issued.load() << " still_waiting=" << evs[e]->waiting.load() << "; ";
            os << "unentered=" << unentered << " unfinished=" << unfinished;
            return os.str();
        }

        // submit all roots of one wave, with external submitter threads; returns when all submitted
        void submit_wave(int wave)
        {
            std::vector<std::thread> subs;
            for (int k = 1; k <= p.nsubmitters; ++k)
            {
                G().external_actors.fetch_add(1);
                subs.emplace_back([this, k, wave] {
                    for (std::size_t i = 0; i < p.tasks.size(); ++i)
                        if (p.tasks[i].parent < 0 && p.tasks[i].wave == wave && p.tasks[i].submitter == k) spawn(static_cast<int>(i));
                    G().external_actors.fetch_sub(1);
                });
            }
            for (std::size_t i = 0; i < p.tasks.size(); ++i)
                if (p.tasks[i].parent < 0 && p.tasks[i].wave == wave && p.tasks[i].submitter == 0) spawn(static_cast<int>(i));
            for (auto& s : subs) s.join();
        }

        // ledger check for all tasks of waves <= wave; returns "" if fine
        std::string check_wave(int wave) const
        {
            for (int i = 0; i < led.n; ++i)
            {
                if (p.tasks[static_cast<std::size_t>(i)].wave > wave) continue;
                int e = led.entered[static_cast<std::size_t>(i)].load(), f = led.finished[static_cast<std::size_t>(i)].load();
                if (e != 1 || f != 1)
                    return "after wait(): task " + std::to_string(i) + " (" + method_names[p.tasks[static_cast<std::size_t>(i)].method] +
                        ", wave " + std::to_string(p.tasks[static_cast<std::size_t>(i)].wave) + ") entered=" + std::to_string(e) + " finished=" + std::to_string(f);
            }
            return "";
        }
    };
}    // namespace vf::prog
