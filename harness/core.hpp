// Core of the /verif harness: choice tape, outcome, rapidcheck driver (in-process and fork-per-case),
// shard result file, replay.  See DESIGN.md §2.
#pragma once
#include <rapidcheck.h>

#include <sys/mman.h>
#include <sys/resource.h>
#include <sys/types.h>
#include <sys/wait.h>
#include <execinfo.h>
#include <fcntl.h>
#include <poll.h>
#include <signal.h>
#include <unistd.h>

#include <algorithm>
#include <chrono>
#include <cinttypes>
#include <cstdint>
#include <cstdio>
#include <cstdlib>
#include <cstring>
#include <fstream>
#include <functional>
#include <map>
#include <set>
#include <sstream>
#include <string>
#include <vector>

namespace vf {

    using tape_t = std::vector<std::uint32_t>;

    // ---------------------------------------------------------------------------------------------
    // Choice tape: every structured case is decoded from a vector<uint32>.  0 always decodes to the
    // "simplest" alternative so that rapidcheck's generic vector/integer shrinking simplifies cases.
    // An exhausted tape yields 0 forever.
    struct Tape
    {
        tape_t const& v;
        std::size_t pos = 0;
        explicit Tape(tape_t const& t)
          : v(t)
        {
        }
        // small raw values decode as themselves (gradual shrinking towards 0); large ones are mixed
        // so that rapidcheck's bit patterns do not correlate successive choices
        std::uint32_t raw()
        {
            if (pos >= v.size()) return 0u;
            std::uint32_t x = v[pos++];
            if (x < 4096u) return x;
            x ^= x >> 16; x *= 0x7feb352du; x ^= x >> 15; x *= 0x846ca68bu; x ^= x >> 16;
            return x;
        }
        std::uint32_t below(std::uint32_t n) { return n <= 1 ? 0u : raw() % n; }
        int range(int lo, int hi) { return lo + static_cast<int>(below(static_cast<std::uint32_t>(hi - lo + 1))); }
        // true with probability num/den; raw 0 => false
        bool chance(std::uint32_t num, std::uint32_t den) { return below(den) >= den - num; }
        template <typename T>
        T pick(std::initializer_list<T> l)
        {
            return *(l.begin() + below(static_cast<std::uint32_t>(l.size())));
        }
        // weighted choice, index 0 is the simplest
        int weighted(std::initializer_list<int> w)
        {
            int tot = 0;
            for (int x : w) tot += x;
            int r = static_cast<int>(below(static_cast<std::uint32_t>(tot)));
            int i = 0;
            for (int x : w)
            {
                if (r < x) return i;
                r -= x;
                ++i;
            }
            return 0;
        }
        bool exhausted() const { return pos >= v.size(); }
    };

    // ---------------------------------------------------------------------------------------------
    inline std::string jstr(std::string const& s)
    {
        std::string o = "\"";
        for (unsigned char c : s)
        {
            if (c == '"') o += "\\\"";
            else if (c == '\\') o += "\\\\";
            else if (c == '\n') o += "\\n";
            else if (c == '\t') o += "\\t";
            else if (c < 0x20 || c >= 0x7f)
            {
                char b[8];
                std::snprintf(b, sizeof b, "\\u%04x", c);
                o += b;
            }
            else o += static_cast<char>(c);
        }
        return o + "\"";
    }

    inline std::uint64_t fnv(std::string const& s)
    {
        std::uint64_t h = 1469598103934665603ull;
        for (unsigned char c : s) { h ^= c; h *= 1099511628211ull; }
        return h;
    }

    inline double now_s()
    {
        return std::chrono::duration<double>(std::chrono::steady_clock::now().time_since_epoch()).count();
    }

    // ---------------------------------------------------------------------------------------------
    struct Outcome
    {
        enum Kind { PASS = 0, FAIL = 1, INCONCLUSIVE = 2, DISCARD = 3 } kind = PASS;
        std::string oracle;    // which oracle fired (short id)
        std::string msg;       // human readable
        bool nontrivial = false;
        std::map<std::string, long long> counters;    // classification counters (summed over cases)
        std::vector<std::string> tags;                 // classification tags (histogram of cases)
        std::string aux;                               // engine data for the driver (E-vt: the branching record of the schedule)

        static Outcome fail(std::string o, std::string m)
        {
            Outcome r;
            r.kind = FAIL;
            r.oracle = std::move(o);
            r.msg = std::move(m);
            return r;
        }
        std::string serialize() const
        {
            std::ostringstream os;
            os << "kind " << static_cast<int>(kind) << "\n";
            os << "nt " << (nontrivial ? 1 : 0) << "\n";
            if (!oracle.empty()) os << "oracle " << oracle << "\n";
            if (!msg.empty())
            {
                std::string m = msg;
                for (auto& c : m) if (c == '\n') c = ' ';
                os << "msg " << m << "\n";
            }
            for (auto& kv : counters) os << "c " << kv.first << " " << kv.second << "\n";
            for (auto& t : tags) os << "t " << t << "\n";
            if (!aux.empty()) os << "x " << aux << "\n";
            os << "end\n";
            return os.str();
        }
        static bool parse(std::string const& s, Outcome& r)
        {
            std::istringstream is(s);
            std::string line;
            bool ended = false;
            while (std::getline(is, line))
            {
                if (line == "end") { ended = true; break; }
                auto sp = line.find(' ');
                std::string k = line.substr(0, sp), v = sp == std::string::npos ? "" : line.substr(sp + 1);
                if (k == "kind") r.kind = static_cast<Kind>(std::atoi(v.c_str()));
                else if (k == "nt") r.nontrivial = v == "1";
                else if (k == "oracle") r.oracle = v;
                else if (k == "msg") r.msg = v;
                else if (k == "c")
                {
                    auto sp2 = v.find(' ');
                    r.counters[v.substr(0, sp2)] = std::atoll(v.substr(sp2 + 1).c_str());
                }
                else if (k == "t") r.tags.push_back(v);
                else if (k == "x") r.aux = v;
            }
            return ended;
        }
    };

    // ---------------------------------------------------------------------------------------------
    // Systematic schedule enumeration (E-vt targets): when `forced_mode()` is set the virtual-thread scheduler
    // takes its i-th decision from forced_schedule()[i] (index into the eligible list; 0 beyond the end) instead
    // of from the case tape, and leaves the (eligible count, pick) record of all decisions in case_aux().
    inline bool& forced_mode() { static bool b = false; return b; }
    inline std::vector<int>& forced_schedule() { static std::vector<int> v; return v; }
    inline std::string& case_aux() { static std::string s; return s; }
    // forced mode only: at most this many preemptions (switching away from a thread that could continue) per schedule; -1 = unbounded
    inline int& preemption_bound() { static int b = -1; return b; }
    // how the virtual-thread scheduler reads the schedule part of the tape: 0 = uniform choice among the eligible threads at
    // every decision; 1 = PCT (Burckhardt et al.): random thread priorities, d-1 priority change points, always run the
    // highest-priority eligible thread (long uninterrupted runs + few, well placed preemptions)
    inline int& vt_mode() { static int m = 0; return m; }

    struct Target
    {
        char const* property = "";
        char const* engine = "";
        bool forked = false;             // run each case in a fresh child process
        bool enumerable = false;         // E-vt: supports systematic schedule enumeration (--exhaustive-out)
        int child_timeout_s = 60;        // watchdog for a forked case: hit => INCONCLUSIVE, never FAIL
        int tape_scale = 4;              // tape length ~ rapidcheck size * tape_scale
        int shrink_retries = 4;          // forked: a shrink candidate "fails" if any of N runs fails
        double shrink_budget_s = 120;
        std::function<std::string(tape_t const&)> describe;    // canonical JSON of the decoded case
        std::function<Outcome(tape_t const&)> run;
        // optional: signature (JSON object string) of a failure for known-findings matching
        std::function<std::string(tape_t const&, Outcome const&)> signature;
        // optional: cases the generator must not produce (known findings excluded by construction);
        // returns true if the case was diverted
    };

    struct ShardStats
    {
        long long evaluations = 0, skipped = 0, inconclusive = 0, discarded = 0, fails_seen = 0;
        std::set<std::uint64_t> nt_hashes;
        std::set<std::uint64_t> all_hashes;
        std::map<std::string, long long> counters;
        std::map<std::string, long long> tags;
        std::vector<std::string> samples;    // JSON strings
        std::string largest_nt;
        std::vector<std::string> inconclusive_notes;
    };

    inline std::string tape_json(tape_t const& t)
    {
        std::string s = "[";
        for (std::size_t i = 0; i < t.size(); ++i)
        {
            if (i) s += ",";
            s += std::to_string(t[i]);
        }
        return s + "]";
    }

    // Run one case in a forked child; result comes back through a pipe.
    inline int& child_fd()
    {
        static int fd = -1;
        return fd;
    }

    inline int& crash_fd()
    {
        static int fd = -1;
        return fd;
    }
    inline void crash_handler(int sig)
    {
        // best effort: symbolic backtrace of the faulting thread into the crash file, then die by the signal
        int fd = crash_fd();
        if (fd >= 0)
        {
            void* frames[48];
            int n = backtrace(frames, 48);
            backtrace_symbols_fd(frames, n, fd);
        }
        signal(sig, SIG_DFL);
        raise(sig);
    }
    inline std::string crash_path(pid_t pid)
    {
        char const* d = std::getenv("VERIF_CRASH_DIR");
        return std::string(d ? d : "/tmp") + "/vf-crash-" + std::to_string(pid) + ".bt";
    }

    inline Outcome run_forked(Target const& T, tape_t const& tape)
    {
        int fds[2];
        if (pipe(fds) != 0) { Outcome o; o.kind = Outcome::INCONCLUSIVE; o.msg = "pipe failed"; return o; }
        fflush(nullptr);
        pid_t pid = fork();
        if (pid < 0) { close(fds[0]); close(fds[1]); Outcome o; o.kind = Outcome::INCONCLUSIVE; o.msg = "fork failed"; return o; }
        if (pid == 0)
        {
            close(fds[0]);
            // child: own process group so that stray grandchildren can be killed with it
            setpgid(0, 0);
            struct rlimit rl { 0, 0 };
            setrlimit(RLIMIT_CORE, &rl);
            child_fd() = fds[1];
            crash_fd() = open(crash_path(getpid()).c_str(), O_CREAT | O_WRONLY | O_TRUNC, 0644);
            {
                void* warm[2];
                backtrace(warm, 2);    // load libgcc now, not inside the handler
                struct sigaction sa;
                std::memset(&sa, 0, sizeof sa);
                sa.sa_handler = crash_handler;
                sigaction(SIGSEGV, &sa, nullptr);
                sigaction(SIGBUS, &sa, nullptr);
                sigaction(SIGABRT, &sa, nullptr);
                sigaction(SIGFPE, &sa, nullptr);
                sigaction(SIGILL, &sa, nullptr);
            }
            Outcome o;
            try
            {
                o = T.run(tape);
            }
            catch (std::exception const& e)
            {
                o = Outcome::fail("harness_exception", std::string("uncaught exception in case runner: ") + e.what());
            }
            catch (...)
            {
                o = Outcome::fail("harness_exception", "uncaught unknown exception in case runner");
            }
            if (o.aux.empty()) o.aux = case_aux();
            std::string s = o.serialize();
            std::size_t off = 0;
            while (off < s.size())
            {
                ssize_t n = write(fds[1], s.data() + off, s.size() - off);
                if (n <= 0) break;
                off += static_cast<std::size_t>(n);
            }
            close(fds[1]);
            _exit(0);
        }
        close(fds[1]);
        std::string buf;
        double deadline = now_s() + T.child_timeout_s;
        bool timed_out = false;
        for (;;)
        {
            double left = deadline - now_s();
            if (left <= 0) { timed_out = true; break; }
            struct pollfd p { fds[0], POLLIN, 0 };
            int pr = poll(&p, 1, static_cast<int>(std::min(left, 1.0) * 1000) + 1);
            if (pr > 0)
            {
                char tmp[4096];
                ssize_t n = read(fds[0], tmp, sizeof tmp);
                if (n > 0) buf.append(tmp, static_cast<std::size_t>(n));
                else if (n == 0) break;
                else if (errno != EINTR) break;
            }
        }
        close(fds[0]);
        int status = 0;
        if (timed_out)
        {
            kill(-pid, SIGKILL);
            kill(pid, SIGKILL);
            waitpid(pid, &status, 0);
            unlink(crash_path(pid).c_str());
            Outcome o;
            // a partial/complete verdict written before the hang still counts
            if (Outcome::parse(buf, o) && o.kind == Outcome::FAIL) return o;
            o = Outcome();
            o.kind = Outcome::INCONCLUSIVE;
            o.msg = "watchdog: case exceeded " + std::to_string(T.child_timeout_s) + "s without a verdict";
            return o;
        }
        // the pipe is closed: wait for exit (bounded)
        double wdl = now_s() + 20;
        for (;;)
        {
            pid_t w = waitpid(pid, &status, WNOHANG);
            if (w == pid) break;
            if (now_s() > wdl) { kill(-pid, SIGKILL); kill(pid, SIGKILL); waitpid(pid, &status, 0); break; }
            usleep(200);
        }
        kill(-pid, SIGKILL);    // reap stragglers in the group, if any
        Outcome o;
        bool parsed = Outcome::parse(buf, o);
        std::string bt;
        {
            std::string cp = crash_path(pid);
            std::ifstream cf(cp);
            if (cf)
            {
                std::stringstream ss;
                ss << cf.rdbuf();
                bt = ss.str();
                // keep the function names only
                std::string shortbt;
                std::istringstream is(bt);
                std::string line;
                int nl = 0;
                while (std::getline(is, line) && nl < 14)
                {
                    auto a = line.find('('), b = line.find('+', a == std::string::npos ? 0 : a);
                    std::string fn = (a != std::string::npos && b != std::string::npos && b > a + 1) ? line.substr(a + 1, b - a - 1) : line.substr(line.find_last_of('/') == std::string::npos ? 0 : line.find_last_of('/') + 1);
                    if (fn.size() > 110) fn = fn.substr(0, 110);
                    shortbt += (nl ? " <- " : "") + fn;
                    ++nl;
                }
                bt = shortbt;
            }
            unlink(cp.c_str());
        }
        if (parsed) return o;
        if (WIFSIGNALED(status))
        {
            int sig = WTERMSIG(status);
            if (sig == SIGKILL)
            {
                o.kind = Outcome::INCONCLUSIVE; o.msg = "child killed (SIGKILL) without verdict"; return o;
            }
            return Outcome::fail(std::string("crash_signal_") + std::to_string(sig),
                std::string("case process died by signal ") + std::to_string(sig) + " (" + strsignal(sig) + ")" + (bt.empty() ? "" : " backtrace: " + bt));
        }
        if (WIFEXITED(status))
            return Outcome::fail("crash_exit", "case process exited with status " + std::to_string(WEXITSTATUS(status)) + " without a verdict");
        o.kind = Outcome::INCONCLUSIVE;
        o.msg = "no verdict";
        return o;
    }

    inline Outcome run_case(Target const& T, tape_t const& tape)
    {
        if (T.forked) return run_forked(T, tape);
        try { return T.run(tape); }
        catch (std::exception const& e) { return Outcome::fail("harness_exception", e.what()); }
    }

    inline std::string arg_of(int argc, char** argv, char const* name, char const* def = "")
    {
        for (int i = 1; i + 1 < argc; ++i)
            if (std::strcmp(argv[i], name) == 0) return argv[i + 1];
        return def;
    }
    inline bool has_flag(int argc, char** argv, char const* name)
    {
        for (int i = 1; i < argc; ++i)
            if (std::strcmp(argv[i], name) == 0) return true;
        return false;
    }

    inline tape_t parse_tape_from_json(std::string const& s)
    {
        // find "tape": [ ... ]
        tape_t t;
        auto p = s.find("\"tape\"");
        if (p == std::string::npos) return t;
        p = s.find('[', p);
        auto e = s.find(']', p);
        std::string body = s.substr(p + 1, e - p - 1);
        std::istringstream is(body);
        std::string tok;
        while (std::getline(is, tok, ','))
        {
            if (tok.find_first_of("0123456789") == std::string::npos) continue;
            t.push_back(static_cast<std::uint32_t>(std::strtoull(tok.c_str(), nullptr, 10)));
        }
        return t;
    }

    inline void write_shard(std::string const& path, Target const& T, ShardStats const& st,
        bool failed, tape_t const& ftape, Outcome const& fout, double wall, long long seed)
    {
        std::ostringstream os;
        os << "{\n \"property\": " << jstr(T.property) << ", \"engine\": " << jstr(T.engine)
           << ", \"seed\": " << seed << ", \"wall_s\": " << wall << ",\n";
        os << " \"evaluations\": " << st.evaluations << ", \"skipped\": " << st.skipped
           << ", \"inconclusive\": " << st.inconclusive << ", \"discarded\": " << st.discarded
           << ", \"fails_seen\": " << st.fails_seen << ", \"distinct\": " << st.all_hashes.size() << ",\n";
        os << " \"nt_hashes\": [";
        bool first = true;
        for (auto h : st.nt_hashes) { os << (first ? "" : ",") << "\"" << std::hex << h << std::dec << "\""; first = false; }
        os << "],\n \"counters\": {";
        first = true;
        for (auto& kv : st.counters) { os << (first ? "" : ", ") << jstr(kv.first) << ": " << kv.second; first = false; }
        os << "},\n \"tags\": {";
        first = true;
        for (auto& kv : st.tags) { os << (first ? "" : ", ") << jstr(kv.first) << ": " << kv.second; first = false; }
        os << "},\n \"samples\": [";
        first = true;
        for (auto& s : st.samples) { os << (first ? "" : ",\n  ") << s; first = false; }
        if (!st.largest_nt.empty()) os << (first ? "" : ",\n  ") << st.largest_nt;
        os << "],\n \"inconclusive_notes\": [";
        first = true;
        for (auto& s : st.inconclusive_notes) { os << (first ? "" : ", ") << jstr(s); first = false; }
        os << "],\n \"failure\": ";
        if (failed)
        {
            os << "{\"property\": " << jstr(T.property) << ", \"engine\": " << jstr(T.engine)
               << ", \"oracle\": " << jstr(fout.oracle) << ", \"message\": " << jstr(fout.msg)
               << ", \"signature\": " << (T.signature ? T.signature(ftape, fout) : std::string("{\"oracle\": ") + jstr(fout.oracle) + "}")
               << ", \"case\": " << T.describe(ftape) << ", \"tape\": " << tape_json(ftape);
            if (vt_mode() != 0) os << ", \"vt_mode\": " << vt_mode();
            if (forced_mode())
            {
                os << ", \"preemption_bound\": " << preemption_bound() << ", \"forced_schedule\": [";
                for (std::size_t i = 0; i < forced_schedule().size(); ++i) os << (i ? "," : "") << forced_schedule()[i];
                os << "]";
            }
            os << "}";
        }
        else os << "null";
        os << "\n}\n";
        std::ofstream f(path);
        f << os.str();
    }


    // ---------------------------------------------------------------------------------------------
    // Small-scope systematic mode (E-vt targets):  prog --exhaustive-out FILE --budget S [--max-schedules N] [--depth D]
    // rapidcheck generates small cases (RC_PARAMS max_size); for every distinct case ALL schedules are enumerated
    // depth-first (stateless: the case is re-run in a fresh child with the decision prefix forced, index 0 after
    // it; the child reports how many threads were eligible at every decision).  A case counts as completely
    // enumerated if the tree was exhausted within N runs and no decision beyond depth D had more than one option.
    inline std::vector<std::pair<int, int>> parse_branches(std::string const& aux)
    {
        std::vector<std::pair<int, int>> br;
        std::istringstream is(aux);
        std::string tok;
        while (std::getline(is, tok, ','))
        {
            auto dot = tok.find('.');
            if (dot == std::string::npos) continue;
            br.emplace_back(std::atoi(tok.substr(0, dot).c_str()), std::atoi(tok.substr(dot + 1).c_str()));
        }
        return br;
    }

    inline int exhaustive_main(int argc, char** argv, Target const& T, std::string const& out)
    {
        double budget = std::atof(arg_of(argc, argv, "--budget", "1e9").c_str());
        long long seed = std::atoll(arg_of(argc, argv, "--seed", "0").c_str());
        long long max_sched = std::atoll(arg_of(argc, argv, "--max-schedules", "3000").c_str());
        int depth = std::atoi(arg_of(argc, argv, "--depth", "40").c_str());
        preemption_bound() = std::atoi(arg_of(argc, argv, "--preempt", "-1").c_str());
        double t0 = now_s();
        ShardStats st;
        bool failed = false;
        tape_t ftape;
        Outcome fout;
        std::vector<int> fsched;
        long long cases = 0, complete = 0, dup = 0, truncated_depth = 0, truncated_count = 0, max_depth_seen = 0, max_per_case = 0;
        forced_mode() = true;
        auto gen = rc::gen::scale(static_cast<double>(T.tape_scale), rc::gen::container<tape_t>(rc::gen::arbitrary<std::uint32_t>()));
        rc::check(std::string(T.property) + " / " + T.engine + " (schedule enumeration)", [&]() {
            tape_t tape = *gen;
            if (!failed && now_s() - t0 > budget) { ++st.skipped; return; }
            if (failed && now_s() - t0 > budget + T.shrink_budget_s) return;    // shrinking phase: bounded as well
            std::string d = T.describe(tape);
            std::uint64_t ch = fnv(d);
            if (!failed)
            {
                if (!st.all_hashes.insert(ch).second) { ++dup; return; }
                ++cases;
            }
            std::vector<int> forced;
            long long n = 0;
            bool done = false, trunc_d = false, trunc_n = false, inconclusive = false;
            while (!done)
            {
                if (n >= max_sched || now_s() - t0 > budget + (failed ? T.shrink_budget_s : 0.0)) { trunc_n = true; break; }
                forced_schedule() = forced;
                Outcome o = run_case(T, tape);
                ++n;
                ++st.evaluations;
                auto br = parse_branches(o.aux);
                std::string picks;
                int real = 0;
                for (auto const& b : br) { picks += std::to_string(b.second) + ","; if (b.first > 1) ++real; }
                if (!failed)
                {
                    for (auto& kv : o.counters) st.counters[kv.first] += kv.second;
                    if (n == 1) for (auto& t : o.tags) ++st.tags[t];
                    if (real > 0) st.nt_hashes.insert(fnv(d + "|" + picks));
                }
                if (o.kind == Outcome::FAIL)
                {
                    if (failed && o.oracle != fout.oracle) { /* shrinking: follow the same oracle only */ }
                    else
                    {
                        ++st.fails_seen;
                        failed = true;
                        ftape = tape;
                        fout = o;
                        fsched.clear();
                        for (auto const& b : br) fsched.push_back(b.second);
                        RC_FAIL(o.oracle + ": " + o.msg);
                    }
                }
                if (o.kind == Outcome::INCONCLUSIVE) { inconclusive = true; break; }
                max_depth_seen = std::max<long long>(max_depth_seen, static_cast<long long>(br.size()));
                for (std::size_t i = static_cast<std::size_t>(depth); i < br.size(); ++i) if (br[i].first > 1) trunc_d = true;
                int i = static_cast<int>(std::min<std::size_t>(br.size(), static_cast<std::size_t>(depth))) - 1;
                while (i >= 0 && br[static_cast<std::size_t>(i)].second + 1 >= br[static_cast<std::size_t>(i)].first) --i;
                if (i < 0) { done = true; break; }
                forced.clear();
                for (int k = 0; k < i; ++k) forced.push_back(br[static_cast<std::size_t>(k)].second);
                forced.push_back(br[static_cast<std::size_t>(i)].second + 1);
            }
            if (failed) return;
            max_per_case = std::max(max_per_case, n);
            if (inconclusive) { ++st.inconclusive; if (st.inconclusive_notes.size() < 5) st.inconclusive_notes.push_back("enumeration: inconclusive run, tape=" + tape_json(tape)); }
            else if (done && !trunc_d) ++complete;
            if (trunc_d) ++truncated_depth;
            if (trunc_n) ++truncated_count;
            if (st.samples.size() < 4 && d.size() < 20000)
                st.samples.push_back("{\"enumerated_case\": " + d + ", \"schedules_run\": " + std::to_string(n) + ", \"complete\": " + ((done && !trunc_d && !inconclusive) ? "true" : "false") + "}");
        });
        st.counters["enum_preemption_bound"] = preemption_bound();
        st.counters["enum_cases"] = cases;
        st.counters["enum_cases_completely_enumerated"] = complete;
        st.counters["enum_cases_truncated_by_depth_bound"] = truncated_depth;
        st.counters["enum_cases_truncated_by_schedule_limit"] = truncated_count;
        st.counters["enum_schedules_run"] = st.evaluations;
        st.counters["enum_duplicate_cases_skipped"] = dup;
        st.counters["enum_max_decisions_in_a_schedule"] = max_depth_seen;
        st.counters["enum_max_schedules_of_one_case"] = max_per_case;
        if (failed) forced_schedule() = fsched;
        write_shard(out, T, st, failed, ftape, fout, now_s() - t0, seed);
        return failed ? 1 : 0;
    }

    // ---------------------------------------------------------------------------------------------
    // main for every property target.
    //   prog --shard-out FILE [--budget SECONDS]        (RC_PARAMS from env: seed, max_success, max_size)
    //   prog --replay FILE [--times N]                  exit 1 + message if the case fails
    //   prog --describe FILE
    inline int target_main(int argc, char** argv, Target const& T)
    {
        if (char const* m = std::getenv("VERIF_VT_MODE")) vt_mode() = std::strcmp(m, "pct") == 0 ? 1 : 0;
        std::string replay = arg_of(argc, argv, "--replay");
        if (!replay.empty())
        {
            std::ifstream f(replay);
            std::stringstream ss;
            ss << f.rdbuf();
            tape_t t = parse_tape_from_json(ss.str());
            {
                std::string js = ss.str();
                auto vm = js.find("\"vt_mode\":");
                if (vm != std::string::npos) vt_mode() = std::atoi(js.c_str() + vm + 10);
                // a failure found by schedule enumeration carries its schedule explicitly
                auto p = js.find("\"forced_schedule\"");
                if (p != std::string::npos)
                {
                    auto b = js.find('[', p), e = js.find(']', p);
                    std::istringstream is(js.substr(b + 1, e - b - 1));
                    std::string tok;
                    forced_mode() = true;
                    forced_schedule().clear();
                    auto pb = js.find("\"preemption_bound\":");
                    if (pb != std::string::npos) preemption_bound() = std::atoi(js.c_str() + pb + 19);
                    while (std::getline(is, tok, ','))
                        if (tok.find_first_of("0123456789") != std::string::npos) forced_schedule().push_back(std::atoi(tok.c_str()));
                }
            }
            int times = std::atoi(arg_of(argc, argv, "--times", T.forked ? "20" : "1").c_str());
            std::printf("case: %s\n", T.describe(t).c_str());
            std::fflush(stdout);
            if (has_flag(argc, argv, "--describe")) return 0;
            int fails = 0, inc = 0;
            Outcome lastf;
            if (has_flag(argc, argv, "--nofork"))
            {
                Outcome o = T.run(t);
                std::printf("nofork result kind=%d oracle=%s msg=%s\n", static_cast<int>(o.kind), o.oracle.c_str(), o.msg.c_str());
                return o.kind == Outcome::FAIL;
            }
            for (int i = 0; i < times; ++i)
            {
                Outcome o = run_case(T, t);
                if (o.kind == Outcome::FAIL) { ++fails; lastf = o; if (!has_flag(argc, argv, "--all")) break; }
                if (o.kind == Outcome::INCONCLUSIVE) ++inc;
            }
            if (fails)
            {
                std::printf("REPLAY-FAIL oracle=%s msg=%s signature=%s\n", lastf.oracle.c_str(), lastf.msg.c_str(),
                    T.signature ? T.signature(t, lastf).c_str() : "{}");
                return 1;
            }
            std::printf("REPLAY-PASS runs=%d inconclusive=%d\n", times, inc);
            return 0;
        }

        std::string xout = arg_of(argc, argv, "--exhaustive-out");
        if (!xout.empty()) return exhaustive_main(argc, argv, T, xout);

        std::string out = arg_of(argc, argv, "--shard-out");
        double budget = std::atof(arg_of(argc, argv, "--budget", "1e9").c_str());
        long long seed = std::atoll(arg_of(argc, argv, "--seed", "0").c_str());
        double t0 = now_s();
        ShardStats st;
        bool failed = false, shrinking = false;
        double shrink_t0 = 0;
        int shrink_tries = 1, reproduced_initial = -1;
        tape_t ftape;
        Outcome fout;

        auto gen = rc::gen::scale(static_cast<double>(T.tape_scale),
            rc::gen::container<tape_t>(rc::gen::arbitrary<std::uint32_t>()));

        rc::check(std::string(T.property) + " / " + T.engine, [&]() {
            tape_t tape = *gen;
            if (shrinking)
            {
                if (now_s() - shrink_t0 > T.shrink_budget_s) return;    // stop shrinking: accept current minimum
                int tries = shrink_tries;
                for (int i = 0; i < tries; ++i)
                {
                    Outcome o = run_case(T, tape);
                    if (o.kind == Outcome::FAIL)
                    {
                        // only follow the same oracle while shrinking (avoid sliding to another bug)
                        if (o.oracle != fout.oracle) continue;
                        ftape = tape;
                        fout = o;
                        RC_FAIL(o.oracle + ": " + o.msg);
                    }
                }
                return;
            }
            if (now_s() - t0 > budget) { ++st.skipped; return; }
            Outcome o = run_case(T, tape);
            if (o.kind == Outcome::DISCARD) { ++st.discarded; return; }
            ++st.evaluations;
            std::string d;
            std::uint64_t h = 0;
            bool want_sample = st.samples.size() < 3 || o.nontrivial;
            d = T.describe(tape);
            h = fnv(d);
            st.all_hashes.insert(h);
            for (auto& kv : o.counters) st.counters[kv.first] += kv.second;
            for (auto& t : o.tags) ++st.tags[t];
            if (o.kind == Outcome::INCONCLUSIVE)
            {
                ++st.inconclusive;
                if (st.inconclusive_notes.size() < 5) st.inconclusive_notes.push_back(o.msg + " tape=" + tape_json(tape));
                return;
            }
            if (o.nontrivial)
            {
                st.nt_hashes.insert(h);
                if (d.size() > st.largest_nt.size() && d.size() < 20000) st.largest_nt = d;
            }
            if (want_sample && st.samples.size() < 4 && d.size() < 20000) st.samples.push_back(d);
            if (o.kind == Outcome::FAIL)
            {
                ++st.fails_seen;
                failed = true;
                shrinking = true;
                shrink_t0 = now_s();
                ftape = tape;
                fout = o;
                if (T.forked)
                {
                    // estimate flakiness: a failure that reproduces 3/3 is shrunk with single runs
                    int rep = 0;
                    for (int i = 0; i < 3; ++i)
                    {
                        Outcome o2 = run_case(T, tape);
                        if (o2.kind == Outcome::FAIL && o2.oracle == o.oracle) ++rep;
                    }
                    shrink_tries = rep == 3 ? 1 : T.shrink_retries;
                    reproduced_initial = rep;
                }
                RC_FAIL(o.oracle + ": " + o.msg);
            }
        });

        if (!out.empty()) write_shard(out, T, st, failed, ftape, fout, now_s() - t0, seed);
        return failed ? 1 : 0;
    }
}    // namespace vf
