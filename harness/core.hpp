// Core of the /verif harness: choice tape, outcome, rapidcheck driver (in-process and fork-per-case),
// shard result file, replay.  See DESIGN.md §2.
#pragma once
#include <rapidcheck.h>

#include <sys/mman.h>
#include <sys/resource.h>
#include <sys/types.h>
#include <sys/wait.h>
#include <execinfo.h>
#include <fcntl.h>
#include <poll.h>
#include <signal.h>
#include <unistd.h>

#include <algorithm>
#include <chrono>
#include <cinttypes>
#include <cstdint>
#include <cstdio>
#include <cstdlib>
#include <cstring>
#include <fstream>
#include <functional>
#include <map>
#include <set>
#include <sstream>
#include <string>
#include <vector>

namespace vf {

    using tape_t = std::vector<std::uint32_t>;

    // ---------------------------------------------------------------------------------------------
    // Choice tape: every structured case is decoded from a vector<uint32>.  0 always decodes to the
    // "simplest" alternative so that rapidcheck's generic vector/integer shrinking simplifies cases.
    // An exhausted tape yields 0 forever.
    struct Tape
    {
        tape_t const& v;
        std::size_t pos = 0;
        explicit Tape(tape_t const& t)
          : v(t)
        {
        }
        // small raw values decode as themselves (gradual shrinking towards 0); large ones are mixed
        // so that rapidcheck's bit patterns do not correlate successive choices
        std::uint32_t raw()
        {
            if (pos >= v.size()) return 0u;
            std::uint32_t x = v[pos++];
            if (x < 4096u) return x;
            x ^= x >> 16; x *= 0x7feb352du; x ^= x >> 15; x *= 0x846ca68bu; x ^= x >> 16;
            return x;
        }
        std::uint32_t below(std::uint32_t n) { return n <= 1 ? 0u : raw() % n; }
        int range(int lo, int hi) { return lo + static_cast<int>(below(static_cast<std::uint32_t>(hi - lo + 1))); }
        // true with probability num/den; raw 0 => false
        bool chance(std::uint32_t num, std::uint32_t den) { return below(den) >= den - num; }
        template <typename T>
        T pick(std::initializer_list<T> l)
        {
            return *(l.begin() + below(static_cast<std::uint32_t>(l.size())));
        }
        // weighted choice, index 0 is the simplest
        int weighted(std::initializer_list<int> w)
        {
            int tot = 0;
            for (int x : w) tot += x;
            int r = static_cast<int>(below(static_cast<std::uint32_t>(tot)));
            int i = 0;
            for (int x : w)
            {
                if (r < x) return i;
                r -= x;
                ++i;
            }
            return 0;
        }
        bool exhausted() const { return pos >= v.size(); }
    };

    // ---------------------------------------------------------------------------------------------
    inline std::string jstr(std::string const& s)
    {
        std::string o = "\"";
        for (unsigned char c : s)
        {
            if (c == '"') o += "\\\"";
            else if (c == '\\') o += "\\\\";
            else if (c == '\n') o += "\\n";
            else if (c == '\t') o += "\\t";
            else if (c < 0x20 || c >= 0x7f)
            {
                char b[8];
                std::snprintf(b, sizeof b, "\\u%04x", c);
                o += b;
            }
            else o += static_cast<char>(c);
        }
        return o + "\"";
    }

    inline std::uint64_t fnv(std::string const& s)
    {
        std::uint64_t h = 1469598103934665603ull;
        for (unsigned char c : s) { h ^= c; h *= 1099511628211ull; }
        return h;
    }

    inline double now_s()
    {
        return std::chrono::duration<double>(std::chrono::steady_clock::now().time_since_epoch()).count();
    }

    // ---------------------------------------------------------------------------------------------
    struct Outcome
    {
        enum Kind { PASS = 0, FAIL = 1, INCONCLUSIVE = 2, DISCARD = 3 } kind = PASS;
        std::string oracle;    // which oracle fired (short id)
        std::string msg;       // human readable
        bool nontrivial = false;
        std::map<std::string, long long> counters;    // classification counters (summed over cases)
        std::vector<std::string> tags;                 // classification tags (histogram of cases)

        static Outcome fail(std::string o, std::string m)
        {
            Outcome r;
            r.kind = FAIL;
            r.oracle = std::move(o);
            r.msg = std::move(m);
            return r;
        }
        std::string serialize() const
        {
            std::ostringstream os;
            os << "kind " << static_cast<int>(kind) << "\n";
            os << "nt " << (nontrivial ? 1 : 0) << "\n";
            if (!oracle.empty()) os << "oracle " << oracle << "\n";
            if (!msg.empty())
            {
                std::string m = msg;
                for (auto& c : m) if (c == '\n') c = ' ';
                os << "msg " << m << "\n";
            }
            for (auto& kv : counters) os << "c " << kv.first << " " << kv.second << "\n";
            for (auto& t : tags) os << "t " << t << "\n";
            os << "end\n";
            return os.str();
        }
        static bool parse(std::string const& s, Outcome& r)
        {
            std::istringstream is(s);
            std::string line;
            bool ended = false;
            while (std::getline(is, line))
            {
                if (line == "end") { ended = true; break; }
                auto sp = line.find(' ');
                std::string k = line.substr(0, sp), v = sp == std::string::npos ? "" : line.substr(sp + 1);
                if (k == "kind") r.kind = static_cast<Kind>(std::atoi(v.c_str()));
                else if (k == "nt") r.nontrivial = v == "1";
                else if (k == "oracle") r.oracle = v;
                else if (k == "msg") r.msg = v;
                else if (k == "c")
                {
                    auto sp2 = v.find(' ');
                    r.counters[v.substr(0, sp2)] = std::atoll(v.substr(sp2 + 1).c_str());
                }
                else if (k == "t") r.tags.push_back(v);
            }
            return ended;
        }
    };

    // ---------------------------------------------------------------------------------------------
    struct Target
    {
        char const* property = "";
        char const* engine = "";
        bool forked = false;             // run each case in a fresh child process
        int child_timeout_s = 60;        // watchdog for a forked case: hit => INCONCLUSIVE, never FAIL
        int tape_scale = 4;              // tape length ~ rapidcheck size * tape_scale
        int shrink_retries = 4;          // forked: a shrink candidate "fails" if any of N runs fails
        double shrink_budget_s = 120;
        std::function<std::string(tape_t const&)> describe;    // canonical JSON of the decoded case
        std::function<Outcome(tape_t const&)> run;
        // optional: signature (JSON object string) of a failure for known-findings matching
        std::function<std::string(tape_t const&, Outcome const&)> signature;
        // optional: cases the generator must not produce (known findings excluded by construction);
        // returns true if the case was diverted
    };

    struct ShardStats
    {
        long long evaluations = 0, skipped = 0, inconclusive = 0, discarded = 0, fails_seen = 0;
        std::set<std::uint64_t> nt_hashes;
        std::set<std::uint64_t> all_hashes;
        std::map<std::string, long long> counters;
        std::map<std::string, long long> tags;
        std::vector<std::string> samples;    // JSON strings
        std::string largest_nt;
        std::vector<std::string> inconclusive_notes;
    };

    inline std::string tape_json(tape_t const& t)
    {
        std::string s = "[";
        for (std::size_t i = 0; i < t.size(); ++i)
        {
            if (i) s += ",";
            s += std::to_string(t[i]);
        }
        return s + "]";
    }

    // Run one case in a forked child; result comes back through a pipe.
    inline int& child_fd()
    {
        static int fd = -1;
        return fd;
    }

    inline int& crash_fd()
    {
        static int fd = -1;
        return fd;
    }
    inline void crash_handler(int sig)
    {
        // best effort: symbolic backtrace of the faulting thread into the crash file, then die by the signal
        int fd = crash_fd();
        if (fd >= 0)
        {
            void* frames[48];
            int n = backtrace(frames, 48);
            backtrace_symbols_fd(frames, n, fd);
        }
        signal(sig, SIG_DFL);
        raise(sig);
    }
    inline std::string crash_path(pid_t pid)
    {
        char const* d = std::getenv("VERIF_CRASH_DIR");
        return std::string(d ? d : "/tmp") + "/vf-crash-" + std::to_string(pid) + ".bt";
    }

    inline Outcome run_forked(Target const& T, tape_t const& tape)
    {
        int fds[2];
        if (pipe(fds) != 0) { Outcome o; o.kind = Outcome::INCONCLUSIVE; o.msg = "pipe failed"; return o; }
        fflush(nullptr);
        pid_t pid = fork();
        if (pid < 0) { close(fds[0]); close(fds[1]); Outcome o; o.kind = Outcome::INCONCLUSIVE; o.msg = "fork failed"; return o; }
        if (pid == 0)
        {
            close(fds[0]);
            // child: own process group so that stray grandchildren can be killed with it
            setpgid(0, 0);
            struct rlimit rl { 0, 0 };
            setrlimit(RLIMIT_CORE, &rl);
            child_fd() = fds[1];
            crash_fd() = open(crash_path(getpid()).c_str(), O_CREAT | O_WRONLY | O_TRUNC, 0644);
            {
                void* warm[2];
                backtrace(warm, 2);    // load libgcc now, not inside the handler
                struct sigaction sa;
                std::memset(&sa, 0, sizeof sa);
                sa.sa_handler = crash_handler;
                sigaction(SIGSEGV, &sa, nullptr);
                sigaction(SIGBUS, &sa, nullptr);
                sigaction(SIGABRT, &sa, nullptr);
                sigaction(SIGFPE, &sa, nullptr);
                sigaction(SIGILL, &sa, nullptr);
            }
            Outcome o;
            try
            {
                o = T.run(tape);
            }
            catch (std::exception const& e)
            {
                o = Outcome::fail("harness_exception", std::string("uncaught exception in case runner: ") + e.what());
            }
            catch (...)
            {
                o = Outcome::fail("harness_exception", "uncaught unknown exception in case runner");
            }
            std::string s = o.serialize();
            std::size_t off = 0;
            while (off < s.size())
            {
                ssize_t n = write(fds[1], s.data() + off, s.size() - off);
                if (n <= 0) break;
                off += static_cast<std::size_t>(n);
            }
            close(fds[1]);
            _exit(0);
        }
        close(fds[1]);
        std::string buf;
        double deadline = now_s() + T.child_timeout_s;
        bool timed_out = false;
        for (;;)
        {
            double left = deadline - now_s();
            if (left <= 0) { timed_out = true; break; }
            struct pollfd p { fds[0], POLLIN, 0 };
            int pr = poll(&p, 1, static_cast<int>(std::min(left, 1.0) * 1000) + 1);
            if (pr > 0)
            {
                char tmp[4096];
                ssize_t n = read(fds[0], tmp, sizeof tmp);
                if (n > 0) buf.append(tmp, static_cast<std::size_t>(n));
                else if (n == 0) break;
                else if (errno != EINTR) break;
            }
        }
        close(fds[0]);
        int status = 0;
        if (timed_out)
        {
            kill(-pid, SIGKILL);
            kill(pid, SIGKILL);
            waitpid(pid, &status, 0);
            unlink(crash_path(pid).c_str());
            Outcome o;
            // a partial/complete verdict written before the hang still counts
            if (Outcome::parse(buf, o) && o.kind == Outcome::FAIL) return o;
            o = Outcome();
            o.kind = Outcome::INCONCLUSIVE;
            o.msg = "watchdog: case exceeded " + std::to_string(T.child_timeout_s) + "s without a verdict";
            return o;
        }
        // the pipe is closed: wait for exit (bounded)
        double wdl = now_s() + 20;
        for (;;)
        {
            pid_t w = waitpid(pid, &status, WNOHANG);
            if (w == pid) break;
            if (now_s() > wdl) { kill(-pid, SIGKILL); kill(pid, SIGKILL); waitpid(pid, &status, 0); break; }
            usleep(200);
        }
        kill(-pid, SIGKILL);    // reap stragglers in the group, if any
        Outcome o;
        bool parsed = Outcome::parse(buf, o);
        std::string bt;
        {
            std::string cp = crash_path(pid);
            std::ifstream cf(cp);
            if (cf)
            {
                std::stringstream ss;
                ss << cf.rdbuf();
                bt = ss.str();
                // keep the function names only
                std::string shortbt;
                std::istringstream is(bt);
                std::string line;
                int nl = 0;
                while (std::getline(is, line) && nl < 14)
                {
                    auto a = line.find('('), b = line.find('+', a == std::string::npos ? 0 : a);
                    std::string fn = (a != std::string::npos && b != std::string::npos && b > a + 1) ? line.substr(a + 1, b - a - 1) : line.substr(line.find_last_of('/') == std::string::npos ? 0 : line.find_last_of('/') + 1);
                    if (fn.size() > 110) fn = fn.substr(0, 110);
                    shortbt += (nl ? " <- " : "") + fn;
                    ++nl;
                }
                bt = shortbt;
            }
            unlink(cp.c_str());
        }
        if (parsed) return o;
        if (WIFSIGNALED(status))
        {
            int sig = WTERMSIG(status);
            if (sig == SIGKILL)
            {
                o.kind = Outcome::INCONCLUSIVE; o.msg = "child killed (SIGKILL) without verdict"; return o;
            }
            return Outcome::fail(std::string("crash_signal_") + std::to_string(sig),
                std::string("case process died by signal ") + std::to_string(sig) + " (" + strsignal(sig) + ")" + (bt.empty() ? "" : " backtrace: " + bt));
        }
        if (WIFEXITED(status))
            return Outcome::fail("crash_exit", "case process exited with status " + std::to_string(WEXITSTATUS(status)) + " without a verdict");
        o.kind = Outcome::INCONCLUSIVE;
        o.msg = "no verdict";
        return o;
    }

    inline Outcome run_case(Target const& T, tape_t const& tape)
    {
        if (T.forked) return run_forked(T, tape);
        try { return T.run(tape); }
        catch (std::exception const& e) { return Outcome::fail("harness_exception", e.what()); }
    }

    inline std::string arg_of(int argc, char** argv, char const* name, char const* def = "")
    {
        for (int i = 1; i + 1 < argc; ++i)
            if (std::strcmp(argv[i], name) == 0) return argv[i + 1];
        return def;
    }
    inline bool has_flag(int argc, char** argv, char const* name)
    {
        for (int i = 1; i < argc; ++i)
            if (std::strcmp(argv[i], name) == 0) return true;
        return false;
    }

    inline tape_t parse_tape_from_json(std::string const& s)
    {
        // find "tape": [ ... ]
        tape_t t;
        auto p = s.find("\"tape\"");
        if (p == std::string::npos) return t;
        p = s.find('[', p);
        auto e = s.find(']', p);
        std::string body = s.substr(p + 1, e - p - 1);
        std::istringstream is(body);
        std::string tok;
        while (std::getline(is, tok, ','))
        {
            if (tok.find_first_of("0123456789") == std::string::npos) continue;
            t.push_back(static_cast<std::uint32_t>(std::strtoull(tok.c_str(), nullptr, 10)));
        }
        return t;
    }

    inline void write_shard(std::string const& path, Target const& T, ShardStats const& st,
        bool failed, tape_t const& ftape, Outcome const& fout, double wall, long long seed)
    {
        std::ostringstream os;
        os << "{\n \"property\": " << jstr(T.property) << ", \"engine\": " << jstr(T.engine)
           << ", \"seed\": " << seed << ", \"wall_s\": " << wall << ",\n";
        os << " \"evaluations\": " << st.evaluations << ", \"skipped\": " << st.skipped
           << ", \"inconclusive\": " << st.inconclusive << ", \"discarded\": " << st.discarded
           << ", \"fails_seen\": " << st.fails_seen << ", \"distinct\": " << st.all_hashes.size() << ",\n";
        os << " \"nt_hashes\": [";
        bool first = true;
        for (auto h : st.nt_hashes) { os << (first ? "" : ",") << "\"" << std::hex << h << std::dec << "\""; first = false; }
        os << "],\n \"counters\": {";
        first = true;
        for (auto& kv : st.counters) { os << (first ? "" : ", ") << jstr(kv.first) << ": " << kv.second; first = false; }
        os << "},\n \"tags\": {";
        first = true;
        for (auto& kv : st.tags) { os << (first ? "" : ", ") << jstr(kv.first) << ": " << kv.second; first = false; }
        os << "},\n \"samples\": [";
        first = true;
        for (auto& s : st.samples) { os << (first ? "" : ",\n  ") << s; first = false; }
        if (!st.largest_nt.empty()) os << (first ? "" : ",\n  ") << st.largest_nt;
        os << "],\n \"inconclusive_notes\": [";
        first = true;
        for (auto& s : st.inconclusive_notes) { os << (first ? "" : ", ") << jstr(s); first = false; }
        os << "],\n \"failure\": ";
        if (failed)
        {
            os << "{\"property\": " << jstr(T.property) << ", \"engine\": " << jstr(T.engine)
               << ", \"oracle\": " << jstr(fout.oracle) << ", \"message\": " << jstr(fout.msg)
               << ", \"signature\": " << (T.signature ? T.signature(ftape, fout) : std::string("{\"oracle\": ") + jstr(fout.oracle) + "}")
               << ", \"case\": " << T.describe(ftape) << ", \"tape\": " << tape_json(ftape) << "}";
        }
        else os << "null";
        os << "\n}\n";
        std::ofstream f(path);
        f << os.str();
    }

    // ---------------------------------------------------------------------------------------------
    // main for every property target.
    //   prog --shard-out FILE [--budget SECONDS]        (RC_PARAMS from env: seed, max_success, max_size)
    //   prog --replay FILE [--times N]                  exit 1 + message if the case fails
    //   prog --describe FILE
    inline int target_main(int argc, char** argv, Target const& T)
    {
        std::string replay = arg_of(argc, argv, "--replay");
        if (!replay.empty())
        {
            std::ifstream f(replay);
            std::stringstream ss;
            ss << f.rdbuf();
            tape_t t = parse_tape_from_json(ss.str());
            int times = std::atoi(arg_of(argc, argv, "--times", T.forked ? "20" : "1").c_str());
            std::printf("case: %s\n", T.describe(t).c_str());
            std::fflush(stdout);
            if (has_flag(argc, argv, "--describe")) return 0;
            int fails = 0, inc = 0;
            Outcome lastf;
            if (has_flag(argc, argv, "--nofork"))
            {
                Outcome o = T.run(t);
                std::printf("nofork result kind=%d oracle=%s msg=%s\n", static_cast<int>(o.kind), o.oracle.c_str(), o.msg.c_str());
                return o.kind == Outcome::FAIL;
            }
            for (int i = 0; i < times; ++i)
            {
                Outcome o = run_case(T, t);
                if (o.kind == Outcome::FAIL) { ++fails; lastf = o; if (!has_flag(argc, argv, "--all")) break; }
                if (o.kind == Outcome::INCONCLUSIVE) ++inc;
            }
            if (fails)
            {
                std::printf("REPLAY-FAIL oracle=%s msg=%s signature=%s\n", lastf.oracle.c_str(), lastf.msg.c_str(),
                    T.signature ? T.signature(t, lastf).c_str() : "{}");
                return 1;
            }
            std::printf("REPLAY-PASS runs=%d inconclusive=%d\n", times, inc);
            return 0;
        }

        std::string out = arg_of(argc, argv, "--shard-out");
        double budget = std::atof(arg_of(argc, argv, "--budget", "1e9").c_str());
        long long seed = std::atoll(arg_of(argc, argv, "--seed", "0").c_str());
        double t0 = now_s();
        ShardStats st;
        bool failed = false, shrinking = false;
        double shrink_t0 = 0;
        int shrink_tries = 1, reproduced_initial = -1;
        tape_t ftape;
        Outcome fout;

        auto gen = rc::gen::scale(static_cast<double>(T.tape_scale),
            rc::gen::container<tape_t>(rc::gen::arbitrary<std::uint32_t>()));

        rc::check(std::string(T.property) + " / " + T.engine, [&]() {
            tape_t tape = *gen;
            if (shrinking)
            {
                if (now_s() - shrink_t0 > T.shrink_budget_s) return;    // stop shrinking: accept current minimum
                int tries = shrink_tries;
                for (int i = 0; i < tries; ++i)
                {
                    Outcome o = run_case(T, tape);
                    if (o.kind == Outcome::FAIL)
                    {
                        // only follow the same oracle while shrinking (avoid sliding to another bug)
                        if (o.oracle != fout.oracle) continue;
                        ftape = tape;
                        fout = o;
                        RC_FAIL(o.oracle + ": " + o.msg);
                    }
                }
                return;
            }
            if (now_s() - t0 > budget) { ++st.skipped; return; }
            Outcome o = run_case(T, tape);
            if (o.kind == Outcome::DISCARD) { ++st.discarded; return; }
            ++st.evaluations;
            std::string d;
            std::uint64_t h = 0;
            bool want_sample = st.samples.size() < 3 || o.nontrivial;
            d = T.describe(tape);
            h = fnv(d);
            st.all_hashes.insert(h);
            for (auto& kv : o.counters) st.counters[kv.first] += kv.second;
            for (auto& t : o.tags) ++st.tags[t];
            if (o.kind == Outcome::INCONCLUSIVE)
            {
                ++st.inconclusive;
                if (st.inconclusive_notes.size() < 5) st.inconclusive_notes.push_back(o.msg + " tape=" + tape_json(tape));
                return;
            }
            if (o.nontrivial)
            {
                st.nt_hashes.insert(h);
                if (d.size() > st.largest_nt.size() && d.size() < 20000) st.largest_nt = d;
            }
            if (want_sample && st.samples.size() < 4 && d.size() < 20000) st.samples.push_back(d);
            if (o.kind == Outcome::FAIL)
            {
                ++st.fails_seen;
                failed = true;
                shrinking = true;
                shrink_t0 = now_s();
                ftape = tape;
                fout = o;
                if (T.forked)
                {
                    // estimate flakiness: a failure that reproduces 3/3 is shrunk with single runs
                    int rep = 0;
                    for (int i = 0; i < 3; ++i)
                    {
                        Outcome o2 = run_case(T, tape);
                        if (o2.kind == Outcome::FAIL && o2.oracle == o.oracle) ++rep;
                    }
                    shrink_tries = rep == 3 ? 1 : T.shrink_retries;
                    reproduced_initial = rep;
                }
                RC_FAIL(o.oracle + ": " + o.msg);
            }
        });

        if (!out.empty()) write_shard(out, T, st, failed, ftape, fout, now_s() - t0, seed);
        return failed ? 1 : 0;
    }
}    // namespace vf
