// E-vt: deterministic virtual threads.  N logical threads are real OS threads, but only the holder
// of the baton runs.  Control changes hands only at decision points: PIKA_VERIF_POINT sites and the
// operations of a custom pika agent (yield/yield_k/suspend/resume/sleep).  The schedule is the rest
// of the case's choice tape.  All-blocked states are detected exactly (deadlock / lost wake-up).
// Cases run in a forked child (core.hpp), so a deadlocked case simply reports and _exit()s.
#pragma once
#include "core.hpp"
#include "sites.hpp"

#include <pika/config.hpp>
#include <pika/execution_base/agent_base.hpp>
#include <pika/execution_base/this_thread.hpp>
#include <pika/modules/errors.hpp>

#include <atomic>
#include <chrono>
#include <condition_variable>
#include <functional>
#include <memory>
#include <mutex>
#include <string>
#include <thread>
#include <vector>

namespace vf::vt {

    struct Sched;
    inline Sched*& cur_sched()
    {
        static Sched* s = nullptr;
        return s;
    }
    inline bool vt_trace() { static bool t = std::getenv("VERIF_VT_TRACE") != nullptr; return t; }
    inline thread_local int tl_self = -1;    // logical thread id of this OS thread (-1: none)

    enum TState { T_NEW, T_RUNNABLE, T_SUSPENDED, T_SLEEPING, T_DONE };

    struct LThread;
    struct Agent : pika::execution::detail::agent_base
    {
        struct Ctx : pika::execution::detail::context_base
        {
            pika::execution::detail::resource_base const& resource() const override { return r; }
            pika::execution::detail::resource_base r;
        };
        Sched* s = nullptr;
        int id = -1;
        Ctx ctx;
        std::string description() const override { return "vt" + std::to_string(id); }
        Ctx const& context() const override { return ctx; }
        void yield(char const*) override;
        void yield_k(std::size_t, char const*) override;
        void spin_k(std::size_t, char const*) override;    // spinlocks spin with spin_k: must be a decision point
        void suspend(char const*) override;
        void resume(char const*) override;
        void abort(char const*) override;
        void sleep_for(pika::chrono::steady_duration const&, char const*) override;
        void sleep_until(pika::chrono::steady_time_point const&, char const*) override;
    };

    struct LThread
    {
        int id = 0;
        TState st = T_NEW;
        int pending_resume = 0;
        bool woken_not_run = false;    // made runnable by a wake-up but not scheduled since (pika: 'pending')
        bool aborted = false;
        bool timeout_fired = false;
        bool last_wait_timed_out = false;    // the thread's last blocking operation ended by its deadline (and it has not blocked since)
        bool stale_token = false;            // a deferred wake-up arrived after that: it belongs to the wait that already timed out
        int tokens_before_timed_wait = 0;    // wake-ups already pending when the thread released the cv's lock for a timed wait (site 23): none of them is for this wait
        bool finite_deadline = false;
        std::uint64_t spun_at = 0;    // progress counter value when this thread last spun (0: not spinning)
        bool spinning = false;
        long long last_picked = 0;            // decision number at which the scheduler last picked this thread
        std::uint64_t own_progress = 0;       // non-spinning decisions taken by this thread itself
        bool seen_retry_site = false;         // retry-loop sites: progress of the OTHER threads when this thread last passed one
        std::uint64_t others_at_retry_site = 0;
        std::function<void()> body;
        std::thread th;
        Agent agent;
        std::string where;    // last blocking description
    };

    struct Sched
    {
        std::mutex m;
        std::condition_variable cv;
        std::vector<std::unique_ptr<LThread>> ts;
        int current = -1;
        Tape* tape = nullptr;
        std::uint64_t progress = 1;    // bumped by every non-spinning decision / state change
        long long decisions = 0, switches = 0, timeouts_fired = 0, max_decisions = 200000;
        long long site_hits[site_max] = {};
        std::vector<int> trace;              // chosen thread per decision (for the replay file / samples)
        std::vector<std::pair<int, int>> branches;    // forced mode: (eligible count, picked index) per decision
        int preemptions = 0;
        int default_streak = 0;
        bool pct_init = false;
        std::vector<long long> pct_prio;
        std::vector<long long> pct_change;
        long long pct_low = -1000;
        std::string branch_aux() const
        {
            std::string a;
            for (auto const& b : branches) a += std::to_string(b.first) + "." + std::to_string(b.second) + ",";
            return a;
        }
        std::function<std::string()> diagnose;
        bool allow_timeouts = true;          // may the scheduler fire finite deadlines by choice?
        bool timeouts_only_when_idle = false;    // fire a deadline only when no thread can run (excludes timeout-vs-notify races)
        long long excluded_timeout_choices = 0;
        long long tokens_consumed = 0;    // wake-ups that arrived before the target's suspension completed
        long long resume_calls = 0;       // Agent::resume calls (= entries a notify took out of a wait queue)
        // known finding F12 (a stale deferred wake-up is delivered to the thread's NEXT timed wait, which reports it as a
        // timeout): the engine sees the precondition exactly.  With discard_on_stale_timed such a run is not judged at all
        // (DISCARD, counted as excluded) -- timeouts may then race notifications freely, every other oracle stays on.
        long long stale_tokens_into_timed_wait = 0;
        bool discard_on_stale_timed = false;
        bool must_discard() const { return discard_on_stale_timed && stale_tokens_into_timed_wait > 0; }
        [[noreturn]] void write_discard()
        {
            Outcome o;
            o.kind = Outcome::DISCARD;
            o.counters["avoided"] = 1;
            std::string str = o.serialize();
            if (child_fd() >= 0) { ssize_t r = write(child_fd(), str.data(), str.size()); (void) r; }
            _exit(0);
        }
        std::function<void(int site, void const* obj, std::uint64_t a, std::uint64_t b)> on_site;

        int add(std::function<void()> f)
        {
            auto t = std::make_unique<LThread>();
            t->id = static_cast<int>(ts.size());
            t->body = std::move(f);
            t->agent.s = this;
            t->agent.id = t->id;
            ts.push_back(std::move(t));
            return static_cast<int>(ts.size()) - 1;
        }

        // ---- must hold m
        bool eligible(LThread const& t) const
        {
            if (t.st == T_RUNNABLE) return !t.spinning || t.spun_at < progress;
            if (t.st == T_SLEEPING) return allow_timeouts && t.finite_deadline;    // choosing it = its deadline passes now
            return false;
        }
        std::string state_dump() const
        {
            static char const* const n[] = {"new", "runnable", "suspended", "sleeping", "done"};
            std::string s;
            for (auto const& t : ts)
                s += "T" + std::to_string(t->id) + "=" + n[t->st] + (t->spinning ? "(spinning)" : "") + (t->where.empty() ? "" : "@" + t->where) + " ";
            return s;
        }
        [[noreturn]] void report_deadlock(bool livelock)
        {
            if (must_discard()) write_discard();
            std::string d = diagnose ? diagnose() : std::string();
            Outcome o = Outcome::fail(livelock ? "vt_livelock" : "vt_deadlock",
                std::string(livelock ? "all runnable logical threads spin without any progress" : "all logical threads are blocked") +
                    " (" + state_dump() + ") after " + std::to_string(decisions) + " decisions; " + d);
            o.counters["decisions"] = decisions;
            o.aux = branch_aux();
            std::string s = o.serialize();
            if (child_fd() >= 0) { ssize_t r = write(child_fd(), s.data(), s.size()); (void) r; }
            else std::fprintf(stderr, "%s\n", s.c_str());
            _exit(0);
        }
        // choose who runs next; self = calling logical thread (may be ineligible)
        int choose(int self)
        {
            std::vector<int> el;
            for (auto const& t : ts)
                if (eligible(*t)) el.push_back(t->id);
            if (timeouts_only_when_idle)
            {
                std::vector<int> run_only;
                for (int e : el)
                    if (ts[static_cast<std::size_t>(e)]->st == T_RUNNABLE) run_only.push_back(e);
                if (!run_only.empty() && run_only.size() != el.size())
                {
                    excluded_timeout_choices += static_cast<long long>(el.size() - run_only.size());
                    el.swap(run_only);
                }
            }
            if (el.empty())
            {
                bool all_done = true, any_spin = false, any_inf_sleep = false;
                for (auto const& t : ts)
                {
                    if (t->st != T_DONE) all_done = false;
                    if (t->st == T_RUNNABLE && t->spinning) any_spin = true;
                    if (t->st == T_SLEEPING) any_inf_sleep = true;
                }
                if (all_done) return -1;
                (void) any_inf_sleep;
                report_deadlock(any_spin);
            }
            ++decisions;
            if (decisions > max_decisions)
            {
                Outcome o;
                o.kind = Outcome::INCONCLUSIVE;
                o.msg = "vt: decision budget exhausted";
                o.aux = branch_aux();
                std::string s = o.serialize();
                if (child_fd() >= 0) { ssize_t r = write(child_fd(), s.data(), s.size()); (void) r; }
                _exit(0);
            }
            int pick;
            if (vf::forced_mode())
            {
                // context bounding: once the preemption budget is used up a thread that can continue does continue
                bool self_el = false;
                for (int e : el) if (e == self) self_el = true;
                if (self_el && vf::preemption_bound() >= 0 && preemptions >= vf::preemption_bound()) { el.clear(); el.push_back(self); }
                std::size_t di = branches.size();
                int idx = di < vf::forced_schedule().size() ? vf::forced_schedule()[di] : 0;
                if (idx >= static_cast<int>(el.size())) idx = static_cast<int>(el.size()) - 1;
                if (branches.size() < 4000) branches.emplace_back(static_cast<int>(el.size()), idx);
                pick = el[static_cast<std::size_t>(idx)];
                if (self_el && pick != self) ++preemptions;
            }
            else if (vf::vt_mode() == 1 && tape)
            {
                if (!pct_init)
                {
                    pct_init = true;
                    pct_prio.resize(ts.size());
                    for (std::size_t i = 0; i < ts.size(); ++i) pct_prio[i] = (static_cast<long long>(tape->below(1u << 20)) << 8) | static_cast<long long>(i);
                    int d = 1 + static_cast<int>(tape->below(4));
                    int K = tape->pick({8, 16, 32, 64, 128});
                    for (int j = 0; j + 1 < d; ++j) pct_change.push_back(static_cast<long long>(tape->below(static_cast<std::uint32_t>(K))) + 1);
                }
                for (std::size_t j = 0; j < pct_change.size(); ++j)
                    if (pct_change[j] == decisions && self >= 0) pct_prio[static_cast<std::size_t>(self)] = -static_cast<long long>(j) - 1;    // below every initial priority
                pick = el[0];
                for (int e : el)
                    if (pct_prio[static_cast<std::size_t>(e)] > pct_prio[static_cast<std::size_t>(pick)]) pick = e;
            }
            else if (tape && !tape->exhausted())
            {
                pick = el[tape->below(static_cast<std::uint32_t>(el.size()))];
            }
            else
            {
                // default: keep running the current thread while it can run, but fairly: after 64 decisions in a row, or when the
                // current thread cannot continue, the eligible thread that was picked longest ago runs next (busy re-check loops in
                // the code under test that wait for another thread would never end under "lowest id first")
                bool self_el = false;
                for (int e : el) if (e == self) self_el = true;
                if (self_el && ++default_streak < 64) pick = self;
                else
                {
                    default_streak = 0;
                    pick = el[0];
                    for (int e : el)
                        if (e != self && (pick == self || ts[static_cast<std::size_t>(e)]->last_picked < ts[static_cast<std::size_t>(pick)]->last_picked)) pick = e;
                    if (pick == self && el.size() > 1)
                        for (int e : el) if (e != self) { pick = e; break; }
                }
            }
            ts[static_cast<std::size_t>(pick)]->last_picked = decisions;
            if (trace.size() < 4000) trace.push_back(pick);
            if (vt_trace()) std::fprintf(stderr, "  [vt] decision %lld by T%d -> T%d   (%s)\n", decisions, self, pick, state_dump().c_str());
            return pick;
        }
        // hand the baton to `next` and wait until it is ours again (unless we are done)
        void switch_to(std::unique_lock<std::mutex>& l, int self, int next, bool wait_back)
        {
            if (next >= 0)
            {
                LThread& n = *ts[static_cast<std::size_t>(next)];
                if (n.st == T_SLEEPING)
                {
                    // the scheduler decided that this sleeper's deadline passes now
                    n.st = T_RUNNABLE;
                    n.timeout_fired = true;
                    n.last_wait_timed_out = true;
                    ++timeouts_fired;
                    ++progress;
                }
                n.spinning = false;
            }
            if (next != self) ++switches;
            current = next;
            cv.notify_all();
            if (wait_back) cv.wait(l, [&] { return current == self; });
        }
        // generic decision point of the running thread
        void decision(bool is_spin)
        {
            int self = tl_self;
            if (self < 0) return;
            std::unique_lock<std::mutex> l(m);
            LThread& me = *ts[static_cast<std::size_t>(self)];
            if (is_spin)
            {
                me.spinning = true;
                me.spun_at = progress;
                // PCT: a thread that spins (waits for somebody else) drops below everybody, otherwise two high-priority spinners
                // that keep waking each other starve the thread they are waiting for
                if (vf::vt_mode() == 1 && pct_init && static_cast<std::size_t>(self) < pct_prio.size()) pct_prio[static_cast<std::size_t>(self)] = --pct_low;
            }
            else { ++progress; ++me.own_progress; }
            int next = choose(self);
            if (next == self) { me.spinning = false; return; }
            switch_to(l, self, next, true);
        }

        // run all threads to completion under the tape; returns when every logical thread is done
        void run(Tape& t)
        {
            tape = &t;
            cur_sched() = this;
            for (auto& up : ts)
            {
                LThread* lt = up.get();
                lt->st = T_RUNNABLE;
                lt->th = std::thread([this, lt] {
                    tl_self = lt->id;
                    pika::execution::this_thread::detail::reset_agent ra(lt->agent);
                    {
                        std::unique_lock<std::mutex> l(m);
                        cv.wait(l, [&] { return current == lt->id; });
                    }
                    lt->body();
                    std::unique_lock<std::mutex> l(m);
                    lt->st = T_DONE;
                    ++progress;
                    int next = choose(lt->id);
                    switch_to(l, lt->id, next, false);
                });
            }
            {
                std::unique_lock<std::mutex> l(m);
                int first = choose(-1);
                switch_to(l, -1, first, false);
            }
            for (auto& up : ts) up->th.join();
            cur_sched() = nullptr;
            if (vf::forced_mode()) vf::case_aux() = branch_aux();
        }
    };

    // ---- agent operations -----------------------------------------------------------------------
    inline void Agent::yield(char const*) { s->decision(true); }
    inline void Agent::yield_k(std::size_t, char const*) { s->decision(true); }
    inline void Agent::spin_k(std::size_t, char const*) { s->decision(true); }
    inline void Agent::suspend(char const* desc)
    {
        std::unique_lock<std::mutex> l(s->m);
        LThread& me = *s->ts[static_cast<std::size_t>(id)];
        ++s->progress;
        if (vt_trace()) std::fprintf(stderr, "  [vt] T%d suspend (tokens=%d)\n", id, me.pending_resume);
        me.last_wait_timed_out = false;
        me.stale_token = false;    // (an untimed wait treats a stale wake-up as a spurious one)
        if (me.pending_resume > 0)
        {
            // the wake-up arrived before the suspension completed: consume it (same meaning as the
            // task path, where the waker retries until the target is suspended)
            --me.pending_resume;
            ++s->tokens_consumed;
        }
        else
        {
            me.st = T_SUSPENDED;
            me.where = desc ? desc : "";
        }
        int next = s->choose(id);
        if (next != id) s->switch_to(l, id, next, true);
        me.woken_not_run = false;
        me.where.clear();
        if (me.aborted)
        {
            me.aborted = false;
            l.unlock();
            PIKA_THROW_EXCEPTION(pika::error::yield_aborted, "vt::suspend", "aborted");
        }
    }
    inline void Agent::resume(char const*)
    {
        // runs on the waker's thread; `this` is the target's agent
        {
            std::unique_lock<std::mutex> l(s->m);
            LThread& tgt = *s->ts[static_cast<std::size_t>(id)];
            ++s->progress;
            ++s->resume_calls;
            if (vt_trace()) std::fprintf(stderr, "  [vt] T%d resumes T%d (state %d, woken_not_run=%d)\n", tl_self, id, (int) tgt.st, (int) tgt.woken_not_run);
            if (tgt.st == T_SUSPENDED || tgt.st == T_SLEEPING) { tgt.st = T_RUNNABLE; tgt.spinning = false; tgt.woken_not_run = true; }
            else if (tgt.woken_not_run)
            {
                // target already woken and waiting to be scheduled (pika: state pending): a second
                // set_thread_state(pending) is a no-op there
            }
            else if (tgt.st != T_DONE)
            {
                ++tgt.pending_resume;    // target still active: the wake-up is deferred to its next suspension
                if (tgt.last_wait_timed_out) tgt.stale_token = true;
            }
        }
        s->decision(false);
    }
    inline void Agent::abort(char const*)
    {
        {
            std::unique_lock<std::mutex> l(s->m);
            LThread& tgt = *s->ts[static_cast<std::size_t>(id)];
            ++s->progress;
            tgt.aborted = true;
            if (tgt.st == T_SUSPENDED || tgt.st == T_SLEEPING) { tgt.st = T_RUNNABLE; tgt.spinning = false; }
            else ++tgt.pending_resume;
        }
        s->decision(false);
    }
    inline void Agent::sleep_until(pika::chrono::steady_time_point const& tp, char const* desc)
    {
        std::unique_lock<std::mutex> l(s->m);
        LThread& me = *s->ts[static_cast<std::size_t>(id)];
        ++s->progress;
        if (vt_trace()) std::fprintf(stderr, "  [vt] T%d sleep_until (tokens=%d)\n", id, me.pending_resume);
        bool stale = me.stale_token;
        int before = me.tokens_before_timed_wait;
        (void) before;
        me.stale_token = false;
        me.last_wait_timed_out = false;
        if (me.pending_resume > 0)
        {
            --me.pending_resume;
            ++s->tokens_consumed;
            if (stale || me.tokens_before_timed_wait > 0) ++s->stale_tokens_into_timed_wait;
        }
        else
        {
            me.st = T_SLEEPING;
            me.timeout_fired = false;
            // deadlines more than one hour away are "never" for the purpose of a case
            me.finite_deadline = tp.value() < std::chrono::steady_clock::now() + std::chrono::hours(1);
            me.where = desc ? desc : "";
        }
        int next = s->choose(id);
        if (next != id) s->switch_to(l, id, next, true);
        else if (me.st == T_SLEEPING) { me.st = T_RUNNABLE; me.timeout_fired = true; me.last_wait_timed_out = true; ++s->timeouts_fired; }
        me.woken_not_run = false;
        me.where.clear();
        me.tokens_before_timed_wait = 0;
    }
    inline void Agent::sleep_for(pika::chrono::steady_duration const& d, char const* desc)
    {
        sleep_until(pika::chrono::steady_time_point(std::chrono::steady_clock::now() + d.value()), desc);
    }

    // hook callback: every PIKA_VERIF_POINT hit by a logical thread is a (progress) decision point
    inline void vt_hook(int site, void const* obj, std::uint64_t a, std::uint64_t b)
    {
        Sched* s = cur_sched();
        if (!s || tl_self < 0) return;
        if (site > 0 && site < site_max) ++s->site_hits[site];
        if (vt_trace()) std::fprintf(stderr, "  [vt] T%d at site %d\n", tl_self, site);
        if (s->on_site) s->on_site(site, obj, a, b);
        bool spin = false;
        if (site == S_CV_WAIT_UNTIL)
        {
            // the waiter has just released the cv's internal lock: a notify can take its queue entry only from now on, so every
            // wake-up that is already pending belongs to an earlier wait
            std::unique_lock<std::mutex> l(s->m);
            LThread& me = *s->ts[static_cast<std::size_t>(tl_self)];
            me.tokens_before_timed_wait = me.pending_resume;
        }
        if (site == S_ONCE_BEFORE_CAS)
        {
            // top of a retry loop that re-checks a flag another thread has to change: passing it again while nobody else has moved
            // in between is spinning (the thread becomes eligible again after somebody else progressed); the first pass and passes
            // after foreign progress are ordinary decision points
            LThread& me = *s->ts[static_cast<std::size_t>(tl_self)];
            std::uint64_t others = s->progress - me.own_progress;
            spin = me.seen_retry_site && me.others_at_retry_site == others;
            me.seen_retry_site = true;
            me.others_at_retry_site = others;
        }
        s->decision(spin);
    }
    inline void install_vt_hook() { pika::verif::hook.store(&vt_hook); }

    // explicit decision point for harness code (e.g. between two API calls of a script)
    inline void step()
    {
        if (Sched* s = cur_sched()) s->decision(false);
    }
    inline int self() { return tl_self; }
}    // namespace vf::vt
