// Poisoning quarantine allocator: a use-after-free oracle that needs no sanitizer (pika switches stacks by hand,
// which AddressSanitizer only tolerates with an instrumented, annotated library build).
// Include in exactly ONE translation unit of a target.  It replaces the global operator new/delete of the whole
// process (libpika included, it is linked dynamically and resolves the operators to these definitions):
//   * delete fills the block with 0xAA and parks it instead of freeing it (up to a byte budget), so freed memory
//     is never handed out again while a case runs: a read after free sees 0xAA.. (pointers become wild -> crash,
//     flags become "true", counters huge), a write after free damages the pattern;
//   * vf::quarantine::check() walks all parked blocks and reports the first damaged one.
// Cases run in forked children, so the memory is given back when the child exits.
#pragma once

#include <atomic>
#include <cstddef>
#include <cstdint>
#include <cstdlib>
#include <cstring>
#include <new>
#include <string>
#include <unistd.h>

namespace vf::quarantine {
    struct Header
    {
        std::size_t size;         // user size
        void* base;               // pointer returned by malloc
        Header* next;             // quarantine list
        std::uint64_t magic;
    };
    inline constexpr std::uint64_t live_magic = 0x51AB51AB51AB51ABull, dead_magic = 0xDEADDEADDEADDEADull;
    inline std::atomic<Header*>& head()
    {
        static std::atomic<Header*> h{nullptr};
        return h;
    }
    inline std::atomic<std::size_t>& parked_bytes()
    {
        static std::atomic<std::size_t> b{0};
        return b;
    }
    inline std::atomic<long long>& parked_blocks()
    {
        static std::atomic<long long> b{0};
        return b;
    }
    // off until a case switches it on (in its forked child): the generator process must stay small, fork() pays for every page
    inline std::atomic<bool>& enabled()
    {
        static std::atomic<bool> e{false};
        return e;
    }
    inline constexpr std::size_t budget = std::size_t(768) << 20;    // beyond this, blocks are really freed
    inline constexpr std::size_t max_block = std::size_t(4) << 20;    // big blocks (stacks, tables) are freed right away

    inline void* allocate(std::size_t n, std::size_t align)
    {
        if (align < alignof(std::max_align_t)) align = alignof(std::max_align_t);
        std::size_t total = n + sizeof(Header) + align;
        void* base = std::malloc(total);
        if (!base) return nullptr;
        std::uintptr_t u = reinterpret_cast<std::uintptr_t>(base) + sizeof(Header);
        u = (u + align - 1) & ~(static_cast<std::uintptr_t>(align) - 1);
        Header* h = reinterpret_cast<Header*>(u) - 1;
        h->size = n;
        h->base = base;
        h->next = nullptr;
        h->magic = live_magic;
        return reinterpret_cast<void*>(u);
    }
    inline void release(void* p) noexcept
    {
        if (!p) return;
        Header* h = reinterpret_cast<Header*>(p) - 1;
        if (h->magic != live_magic)
        {
            // double delete (or a pointer that never came from here): make it loud
            static char const msg[] = "quarantine: delete of a block that is not live (double delete?)\n";
            ssize_t r = write(2, msg, sizeof msg - 1);
            (void) r;
            std::abort();
        }
        if (!enabled().load(std::memory_order_relaxed) || h->size > max_block || parked_bytes().load(std::memory_order_relaxed) > budget)
        {
            h->magic = dead_magic;
            std::free(h->base);
            return;
        }
        h->magic = dead_magic;
        std::memset(p, 0xAA, h->size);
        parked_bytes().fetch_add(h->size, std::memory_order_relaxed);
        parked_blocks().fetch_add(1, std::memory_order_relaxed);
        Header* old = head().load(std::memory_order_relaxed);
        do { h->next = old; } while (!head().compare_exchange_weak(old, h, std::memory_order_release, std::memory_order_relaxed));
    }
    // "" if every parked block still carries its pattern
    inline std::string check()
    {
        for (Header* h = head().load(std::memory_order_acquire); h; h = h->next)
        {
            unsigned char const* p = reinterpret_cast<unsigned char const*>(h + 1);
            for (std::size_t i = 0; i < h->size; ++i)
                if (p[i] != 0xAA)
                    return "a freed block of " + std::to_string(h->size) + " bytes was written to after it was released: byte " + std::to_string(i) + " is 0x" +
                        std::string(1, "0123456789abcdef"[p[i] >> 4]) + std::string(1, "0123456789abcdef"[p[i] & 15]) + " (poison 0xaa)";
            if (h->magic != dead_magic) return "the header of a freed block of " + std::to_string(h->size) + " bytes was overwritten after release";
        }
        return "";
    }
}    // namespace vf::quarantine

void* operator new(std::size_t n)
{
    void* p = vf::quarantine::allocate(n ? n : 1, 0);
    if (!p) throw std::bad_alloc();
    return p;
}
void* operator new[](std::size_t n)
{
    void* p = vf::quarantine::allocate(n ? n : 1, 0);
    if (!p) throw std::bad_alloc();
    return p;
}
void* operator new(std::size_t n, std::nothrow_t const&) noexcept { return vf::quarantine::allocate(n ? n : 1, 0); }
void* operator new[](std::size_t n, std::nothrow_t const&) noexcept { return vf::quarantine::allocate(n ? n : 1, 0); }
void* operator new(std::size_t n, std::align_val_t a)
{
    void* p = vf::quarantine::allocate(n ? n : 1, static_cast<std::size_t>(a));
    if (!p) throw std::bad_alloc();
    return p;
}
void* operator new[](std::size_t n, std::align_val_t a)
{
    void* p = vf::quarantine::allocate(n ? n : 1, static_cast<std::size_t>(a));
    if (!p) throw std::bad_alloc();
    return p;
}
void* operator new(std::size_t n, std::align_val_t a, std::nothrow_t const&) noexcept { return vf::quarantine::allocate(n ? n : 1, static_cast<std::size_t>(a)); }
void* operator new[](std::size_t n, std::align_val_t a, std::nothrow_t const&) noexcept { return vf::quarantine::allocate(n ? n : 1, static_cast<std::size_t>(a)); }
void operator delete(void* p) noexcept { vf::quarantine::release(p); }
void operator delete[](void* p) noexcept { vf::quarantine::release(p); }
void operator delete(void* p, std::size_t) noexcept { vf::quarantine::release(p); }
void operator delete[](void* p, std::size_t) noexcept { vf::quarantine::release(p); }
void operator delete(void* p, std::nothrow_t const&) noexcept { vf::quarantine::release(p); }
void operator delete[](void* p, std::nothrow_t const&) noexcept { vf::quarantine::release(p); }
void operator delete(void* p, std::align_val_t) noexcept { vf::quarantine::release(p); }
void operator delete[](void* p, std::align_val_t) noexcept { vf::quarantine::release(p); }
void operator delete(void* p, std::size_t, std::align_val_t) noexcept { vf::quarantine::release(p); }
void operator delete[](void* p, std::size_t, std::align_val_t) noexcept { vf::quarantine::release(p); }
void operator delete(void* p, std::align_val_t, std::nothrow_t const&) noexcept { vf::quarantine::release(p); }
void operator delete[](void* p, std::align_val_t, std::nothrow_t const&) noexcept { vf::quarantine::release(p); }
