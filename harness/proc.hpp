// E-proc: run one configuration (environment + argv) of the runtime in a grandchild process and
// collect what the live runtime reports, or how start-up failed.
#pragma once
#include "core.hpp"

#include <functional>
#include <map>
#include <string>
#include <vector>

namespace vf::proc {
    struct Result
    {
        bool exited = false;
        int code = 0;
        int signal = 0;
        bool timed_out = false;
        std::string out;    // what the probe wrote (key=value lines)
        std::string err;    // captured stderr (tail)
        std::map<std::string, std::string> kv;
        bool has(std::string const& k) const { return kv.count(k) != 0; }
        std::string get(std::string const& k) const { auto it = kv.find(k); return it == kv.end() ? std::string() : it->second; }
        long long num(std::string const& k, long long d = -1) const { auto it = kv.find(k); return it == kv.end() ? d : std::atoll(it->second.c_str()); }
    };

    // fn runs in the grandchild with `fd` to report "key=value\n" lines; its return value is the exit code
    inline Result run(std::vector<std::pair<std::string, std::string>> const& env, std::vector<std::string> const& unset,
        std::function<int(int fd)> fn, int timeout_s = 30)
    {
        Result r;
        int po[2], pe[2];
        if (pipe(po) != 0 || pipe(pe) != 0) { r.timed_out = true; return r; }
        fflush(nullptr);
        pid_t pid = fork();
        if (pid == 0)
        {
            close(po[0]);
            close(pe[0]);
            dup2(pe[1], 2);
            dup2(pe[1], 1);
            for (auto const& u : unset) unsetenv(u.c_str());
            for (auto const& kv : env) setenv(kv.first.c_str(), kv.second.c_str(), 1);
            signal(SIGSEGV, SIG_DFL);
            signal(SIGABRT, SIG_DFL);
            int rc = 99;
            try { rc = fn(po[1]); }
            catch (std::exception const& e)
            {
                std::string s = std::string("exception=") + e.what() + "\n";
                for (auto& ch : s) if (ch == '\n' && &ch != &s.back()) ch = ' ';
                ssize_t w = write(po[1], s.data(), s.size());
                (void) w;
                rc = 97;
            }
            catch (...) { rc = 98; }
            _exit(rc);
        }
        close(po[1]);
        close(pe[1]);
        double deadline = now_s() + timeout_s;
        bool o_open = true, e_open = true;
        while (o_open || e_open)
        {
            double left = deadline - now_s();
            if (left <= 0) { r.timed_out = true; break; }
            struct pollfd p[2] = {{po[0], POLLIN, 0}, {pe[0], POLLIN, 0}};
            int pr = poll(p, 2, static_cast<int>(std::min(left, 1.0) * 1000) + 1);
            if (pr <= 0) continue;
            char buf[4096];
            if (o_open && (p[0].revents & (POLLIN | POLLHUP)))
            {
                ssize_t n = read(po[0], buf, sizeof buf);
                if (n > 0) r.out.append(buf, static_cast<std::size_t>(n)); else o_open = false;
            }
            if (e_open && (p[1].revents & (POLLIN | POLLHUP)))
            {
                ssize_t n = read(pe[0], buf, sizeof buf);
                if (n > 0) { r.err.append(buf, static_cast<std::size_t>(n)); if (r.err.size() > 16384) r.err.erase(0, r.err.size() - 8192); }
                else e_open = false;
            }
        }
        close(po[0]);
        close(pe[0]);
        int status = 0;
        if (r.timed_out) { kill(pid, SIGKILL); waitpid(pid, &status, 0); return r; }
        waitpid(pid, &status, 0);
        if (WIFEXITED(status)) { r.exited = true; r.code = WEXITSTATUS(status); }
        else if (WIFSIGNALED(status)) r.signal = WTERMSIG(status);
        std::istringstream is(r.out);
        std::string line;
        while (std::getline(is, line))
        {
            auto eq = line.find('=');
            if (eq != std::string::npos) r.kv[line.substr(0, eq)] = line.substr(eq + 1);
        }
        return r;
    }

    // exec variant: a fresh process image (needed when the code under test reads its environment during
    // static initialisation, e.g. the hwloc topology singleton).  The program is this executable, started as
    //   <exe> --probe <args...>      and reports "VF:key=value" lines on stdout.
    inline Result run_exec(std::vector<std::pair<std::string, std::string>> const& env, std::vector<std::string> const& unset,
        std::vector<std::string> const& args, int timeout_s = 30)
    {
        return run(env, unset, [&](int fd) -> int {
            dup2(fd, 3);
            std::vector<std::string> a{"/proc/self/exe", "--probe"};
            a.insert(a.end(), args.begin(), args.end());
            std::vector<char*> argv;
            for (auto& x : a) argv.push_back(x.data());
            argv.push_back(nullptr);
            char exe[4096];
            ssize_t n = readlink("/proc/self/exe", exe, sizeof exe - 1);
            if (n <= 0) return 96;
            exe[n] = 0;
            execv(exe, argv.data());
            return 95;
        }, timeout_s);
    }
    // in the probe process: report through fd 3
    inline void emit_probe(std::string const& k, std::string const& v)
    {
        std::string s = k + "=" + v + "\n";
        ssize_t w = write(3, s.data(), s.size());
        (void) w;
    }

    inline void emit(int fd, std::string const& k, std::string const& v)
    {
        std::string s = k + "=" + v + "\n";
        ssize_t w = write(fd, s.data(), s.size());
        (void) w;
    }
}    // namespace vf::proc
